#!/bin/bash
# Offline setup: third-party oracle dependencies go to /verif/.deps (idempotent).
here="$(cd "$(dirname "$0")" && pwd)"
WH=/opt/veriftools/wheels
PY=/venv/bin/python
need=""
PYTHONPATH="$here/.deps" $PY -c "import mpmath" 2>/dev/null || need="$need mpmath"
PYTHONPATH="$here/.deps" $PY -c "import hypothesis" 2>/dev/null || need="$need hypothesis"
if [ -n "$need" ]; then
  PIP_NO_INDEX=1 $PY -m pip install -q --no-index --find-links "$WH" --target "$here/.deps" $need || exit 1
fi
# atheris is optional (secondary engine of the thorough tier of C13/C14)
PYTHONPATH="$here/.deps" $PY -c "import atheris" 2>/dev/null || \
  PIP_NO_INDEX=1 $PY -m pip install -q --no-index --find-links "$WH" --target "$here/.deps" atheris 2>/dev/null
PYTHONPATH="$here/.deps" $PY -c "import mpmath, hypothesis, numpy, scipy" || exit 1
exit 0
