"""C16 - fd_derivative is exact on polynomials at every point of any strictly monotone grid.

Oracle: the polynomial p(t) = sum_k c_k ((t - t0)/s)**k has rational coefficients and the grid
points are floats (= rationals), so p(x_i) and p^(n)(x_i) are exact Fractions.  The samples
handed to the library are fx_i = float(p(x_i)) (correctly rounded).  The tolerance at point i is

        TOL_C16 * eps * max_j |W_ij| * sum_j |fx_j|        (j over the stencil of point i)

(fd_weights computes small weights by cancellation, so a weight carries an absolute error of a few eps
times the *largest* weight of its stencil - the row-wise model that C15 verifies; the sharper factor
sum_j |W_ij| |fx_j| of the design is reported as a statistic but is not a valid rounding bound: on the
near-uniform grid x = [0, 0.99999973, 1.99999973, 2.99999973], p = 8t - 4t^2, n = m = 1 the centre weight is
2.7e-7, carries an error 1e-16 and multiplies fx = 4: 5.9e5 eps sum|W||fx| for an absolute error 2.9e-16).
W_i are the *exact* n-th derivative weights (integer arithmetic, nverif.oracle.stencil) of
the stencil the docstring documents for point i: x[i-mm : i+mm+1] in the interior and the
first / last 2*mm+2 points for the mm points next to each end (mm = n//2 + m).

Clauses
  length          output has the shape of the input
  finite          every entry finite
  exact           |du_i - p^(n)(x_i)| <= tol_i at EVERY i for deg p <= 2*mm   (the property)
  boundary-stencil  for deg p == 2*mm+1 the same bound at the 2*mm boundary points only: the
                  docstring promises "2*mm+2 points for each of the 2*mm boundary points", and a
                  2*mm+2 point stencil differentiates degree 2*mm+1 exactly.  (Interior points are
                  not asserted for that degree.)  Drawn for ~15 % of the cases.
"""
from fractions import Fraction

import numpy as np
from hypothesis import strategies as st

from nverif.engine import Prop, Violation
from nverif.oracle.rational import lagrange_derivative_weights, poly_eval, poly_deriv
from nverif.oracle.stencil import common_scale, to_int, stencil_weights_int

EPS = 2.0 ** -52
TOL_C16 = 1e4          # in units of eps * max_j|W_ij| * sum_j|fx_j|  (worst seen: evidence)


def _pow2_near(v):
    return float(2.0 ** int(round(np.log2(v))))


@st.composite
def grid_case(draw):
    n = draw(st.integers(1, 6))
    m = draw(st.integers(1, 4))
    mm = n // 2 + m
    size = 2 * mm + 2
    lenkind = draw(st.sampled_from(['min', 'min+1', 'any', 'any']))
    if lenkind == 'min':
        L = size
    elif lenkind == 'min+1':
        L = size + 1
    else:
        L = draw(st.integers(size, 60))
    kind = draw(st.sampled_from(['uniform', 'jitter', 'near-uniform', 'random', 'random']))
    scale = 10.0 ** draw(st.floats(-2, 2))
    # far offsets (|x| / h up to 2e10, e.g. time stamps): node differences stay exact, x itself has few spare bits
    centre = draw(st.sampled_from([0.0, 1.0, -3.0, 50.0, 1e5, -1e9])) * scale
    if kind == 'uniform':
        h = scale * draw(st.floats(0.05, 1.0))
        x = [centre + h * i for i in range(L)]
    elif kind == 'jitter':
        h = scale * draw(st.floats(0.05, 1.0))
        x = [centre + h * (i + draw(st.floats(-0.3, 0.3))) for i in range(L)]
    elif kind == 'near-uniform':        # some exact weights are tiny compared with their neighbours
        h = scale * draw(st.floats(0.05, 1.0))
        amp = 10.0 ** draw(st.floats(-9, -3))
        x = [centre + h * (i + amp * draw(st.floats(-1, 1))) for i in range(L)]
    else:       # gaps spread (log-uniformly) over two decades
        gaps = [scale * 10.0 ** draw(st.floats(-2, 0)) for _ in range(L - 1)]
        x = [centre]
        for g in gaps:
            x.append(x[-1] + g)
    x = [float(v) for v in x]
    direction = draw(st.sampled_from(['inc', 'dec']))
    if direction == 'dec':
        x = x[::-1]
    # polynomial: degree, coefficients, expansion point t0 = x[j], length scale s ~ half stencil width
    degkind = draw(st.sampled_from(['full', 'full', 'full', 'full-1', 'any', 'any', 'extra']))
    if degkind == 'full':
        deg = 2 * mm
    elif degkind == 'full-1':
        deg = 2 * mm - 1
    elif degkind == 'extra':
        deg = 2 * mm + 1
    else:
        deg = draw(st.integers(0, 2 * mm))
    den = draw(st.sampled_from([1, 1, 2, 4]))
    coefs = [draw(st.integers(-9, 9)) for _ in range(deg)]
    lead = draw(st.integers(1, 9)) * draw(st.sampled_from([-1, 1]))
    coefs.append(lead)
    jkind = draw(st.sampled_from(['left', 'right', 'left-edge', 'right-edge', 'any', 'any']))
    if jkind == 'left':
        j = draw(st.integers(0, mm - 1))
    elif jkind == 'right':
        j = L - 1 - draw(st.integers(0, mm - 1))
    elif jkind == 'left-edge':
        j = mm - 1 + draw(st.integers(0, 1))
    elif jkind == 'right-edge':
        j = L - mm - draw(st.integers(0, 1))
    else:
        j = draw(st.integers(0, L - 1))
    width = abs(x[min(j + mm, L - 1)] - x[max(j - mm, 0)])
    s = _pow2_near(width / 2.0) if width > 0 else 1.0
    return dict(n=n, m=m, x=x, kind=kind, direction=direction, lenkind=lenkind, degkind=degkind,
                coefs=coefs, den=den, j=j, t0=x[j], s=s)


class C16(Prop):
    id = 'C16'
    title = 'fd_derivative is exact on polynomials at every point of any grid'
    rule = ('Hypothesis draws n in 1..6, m in 1..4 (mm = n//2+m), a grid of 2mm+2..60 points '
            '(minimal length, minimal+1, or any), uniform / jittered (30 %) / near-uniform (1e-9..1e-3) / '
            'random with gaps log-uniform over two decades, increasing or decreasing, overall scale 1e-2..1e2 and offset 0, 1, -3, 50, 1e5 or -1e9 scales (grid far from the origin); '
            'a polynomial of degree 0..2mm (2mm+1 for the docstring boundary-stencil clause) with '
            'coefficients k/den, |k| <= 9, den in {1,2,4}, in the variable (t - x[j])/s, j drawn '
            'near either boundary, at the boundary/interior seam or anywhere, s = power of two near '
            'half the stencil width (so that all terms matter near x[j]). Samples are float(p(x_i)) '
            'from exact Fractions. Asserted at every grid point. Non-trivial = degree >= 2mm-1 and '
            'grid not uniform; distinct by (x, n, m, coefficients).')
    assumptions = ('python fractions / integer arithmetic is exact; float(Fraction) is correctly rounded',
                   'exact stencil weights by integer Lagrange expansion (cross-checked against the '
                   'Fraction expansion of nverif.oracle.rational on import and on sampled stencils)',
                   'tolerance 1e4*eps*max_j|W_ij|*sum_j|fx_j| over the documented stencil of point i, W exact '
                   '(row-wise rounding model of fd_weights, as in C15); the design factor sum_j|W_ij||fx_j| is '
                   'not a rounding bound (tiny centre weights on near-uniform grids) and is only reported',
                   'clause boundary-stencil (degree 2mm+1, boundary points only) rests on the docstring '
                   'sentence "2*mm+2 points for each of the 2*mm boundary points", not on the property text')
    constants = {'TOL_C16': TOL_C16}
    examples = {'quick': 800, 'thorough': 25000}

    def strategy(self, tier):
        return grid_case()

    def check(self, case, ctx):
        import numdifftools.fornberg as ndf
        x, n, m = case['x'], case['n'], case['m']
        mm = n // 2 + m
        size = 2 * mm + 2
        L = len(x)
        if L < size:
            ctx.skip('grid shorter than 2*mm+2')
        diffs = [b - a for a, b in zip(x[:-1], x[1:])]
        if not (all(d > 0 for d in diffs) or all(d < 0 for d in diffs)):
            ctx.skip('grid not strictly monotone after rounding')
        deg = len(case['coefs']) - 1
        extra = deg == 2 * mm + 1
        if deg > 2 * mm + 1:
            ctx.skip('degree above 2*mm+1')
        t0, s = Fraction(case['t0']), Fraction(case['s'])
        coefs = [Fraction(c, case['den']) for c in case['coefs']]
        dcoefs = poly_deriv(coefs, n)
        sn = s ** n
        us = [(Fraction(v) - t0) / s for v in x]
        fx = [float(poly_eval(coefs, u)) for u in us]
        exact = [poly_eval(dcoefs, u) / sn for u in us]
        with ctx.lib('no-exception', 'fd_derivative(len=%d, n=%d, m=%d)' % (L, n, m)):
            du = ndf.fd_derivative(np.array(fx, dtype=float), np.array(x, dtype=float), n, m)
        du = np.asarray(du)
        if du.shape != (L,):
            raise Violation('length', 'output shape %s for input length %d' % (du.shape, L), region='all')
        D = common_scale(x)
        X = to_int(x, D)
        Dn = D ** n
        ffx = [Fraction(f) for f in fx]
        uniform = case['kind'] == 'uniform'
        worst = {'boundary': 0.0, 'interior': 0.0, 'sharp': 0.0}
        for i in range(L):
            if i < mm:
                lo, hi, region = 0, size, 'left'
            elif i >= L - mm:
                lo, hi, region = L - size, L, 'right'
            else:
                lo, hi, region = i - mm, i + mm + 1, 'interior'
            if extra and region == 'interior':
                continue
            if not np.isfinite(du[i]):
                raise Violation('finite', 'du[%d] = %r' % (i, float(du[i])), region=region, i=i)
            W = stencil_weights_int(X[lo:hi], X[i], n)
            if i == case['j'] and hi - lo <= 8:      # sampled cross-check of the fast oracle
                ref = lagrange_derivative_weights(x[lo:hi], x[i], n)[n]
                assert [w * Dn for w in W] == ref, 'stencil oracle disagrees with rational oracle'
            sharp = sum(abs(w) * abs(f) for w, f in zip(W, ffx[lo:hi])) * Dn
            cond = max(abs(w) for w in W) * sum(abs(f) for f in ffx[lo:hi]) * Dn
            err = abs(Fraction(float(du[i])) - exact[i])
            clause = 'boundary-stencil' if extra else 'exact'
            if cond == 0:
                if err != 0 and not extra:
                    raise Violation(clause, 'du[%d] = %r, exact 0 (all weighted samples are zero)'
                                    % (i, float(du[i])), region=region, i=i)
                continue
            ratio = float(err / cond) / EPS
            key = 'interior' if region == 'interior' else 'boundary'
            if ratio > worst[key]:
                worst[key] = ratio
            if sharp > 0:
                worst['sharp'] = max(worst['sharp'], float(err / sharp) / EPS)
            if ratio > TOL_C16 and extra:
                # degree 2mm+1 at the boundary is promised by the docstring ("2*mm+2 points"), not by
                # the property (degree <= 2mm): reported, never raised
                ctx.count('info: boundary stencil not exact for degree 2mm+1 (docstring only, not asserted)')
                continue
            if ratio > TOL_C16:
                raise Violation(clause, 'du[%d] = %r, exact %r: error %.3g * eps * max|W| sum|fx| (%s point, '
                                'n=%d m=%d len=%d deg=%d %s %s)'
                                % (i, float(du[i]), float(exact[i]), ratio, region, n, m, L, deg,
                                   case['kind'], case['direction']),
                                region=region, i=i, ratio=ratio)
            if i == case['j']:
                ctx.record('log10(tol_at_x[j] * s^n)', np.log10(TOL_C16 * EPS * float(cond * sn)))
        summ = dict(n=n, m=m, L=L, deg=deg, kind=case['kind'], direction=case['direction'])
        suffix = ' (deg 2mm+1)' if extra else ''
        ctx.track('boundary_err/(eps*max|W|*sum|fx|)' + suffix, worst['boundary'], summ)
        if not extra:
            ctx.track('interior_err/(eps*max|W|*sum|fx|)', worst['interior'], summ)
        ctx.track('info: err/(eps*sum|W fx|) (design factor, not asserted)', worst['sharp'], summ)
        ctx.count('kind=%s' % case['kind'])
        ctx.count('direction=%s' % case['direction'])
        ctx.count('offset/gap=%s' % ('>=1e4' if abs(x[0]) >= 1e4 * abs(x[1] - x[0]) else '<1e4'))
        ctx.count('n=%d' % n)
        ctx.count('m=%d' % m)
        ctx.count('len=%s' % ('2mm+2' if L == size else '2mm+3' if L == size + 1 else '>2mm+3'))
        ctx.count('deg=%s' % ('2mm+1(boundary clause)' if extra else '2mm' if deg == 2 * mm
                              else '2mm-1' if deg == 2 * mm - 1 else '<2mm-1'))
        j = case['j']
        ctx.count('t0=%s' % ('boundary' if (j < mm or j >= L - mm) else 'interior'))
        if deg >= 2 * mm - 1 and not uniform:
            ctx.nontriv(dict(x=x, n=n, m=m, coefs=case['coefs'], den=case['den']))
        ctx.sample(dict(n=n, m=m, len=L, deg=deg, kind=case['kind'], direction=case['direction'],
                        x_head=x[:4], j=j, du_j=float(du[j]), exact_j=float(exact[j]),
                        worst_boundary=worst['boundary'], worst_interior=worst['interior']))

    def finding_key(self, case, violation):
        return {'clause': violation.clause, 'region': violation.details.get('region')}


PROP = C16()
