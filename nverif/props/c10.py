"""C10 - step generators produce the documented geometric sequences, and enough steps.

Oracle: nverif.oracle.stepmodel, a closed form written from the docstrings and signatures; the
powers r**k are evaluated with mpmath (200 bits).  Two kinds of cases:

* drawn   every constructor option of MinStepGenerator / MaxStepGenerator / CStepGenerator, the
          (method, n, order) triple and x (0, scalar, array, complex for CStep) are Hypothesis draws;
          ``list(gen(x, method, n, order))`` is compared with the model;
* grid    (enumerated, finite) for every method x n in 1..10 (multicomplex n <= 2) x order in 1..10:
          the count of the generator Derivative would build (default / bare Min / bare Max / scalar
          step, called with the rule's method_order exactly as Derivative does) is the model's and is
          at least len(LogRule(n, method, order).rule(r)); Derivative(np.exp, ...)(1.0) does not
          raise for those four step choices; default_scale equals the model table.

Clauses: no-exception, shape, finite, count, structure (one base step B reproduces every element
B*r**k within the ulp tolerance = constant ratio, right exponents, offset), base-step (that B lies
in the documented interval base_step*step_nom(x), through (v+1)-1 iff use_exact_steps),
nominal-monotone, decreasing, enough-steps, derivative-raises, default-scale.
"""
import math
import warnings

import mpmath
import numpy as np
from hypothesis import strategies as st

from nverif.engine import Prop, Violation
from nverif.oracle import stepmodel as sm

U = 2.0 ** -52
T_REAL = 16.0        # ulp; real ratio: one pow (< 1 ulp) and one multiplication (worst seen 1.38)
T_SPIRAL = 40.0      # ulp per (1 + |k|): complex ratio exp(1j*dtheta)*r raised to the power k (worst seen 3.05)
B_SLACK = 8.0        # ulp of slack when the recovered base step is compared with its interval
METHODS = sm.METHODS


def _maybe(draw, opts, name, strategy, tenths=5):
    if draw(_TENTHS) < tenths:
        opts[name] = draw(strategy)


_TENTHS = st.integers(0, 9)
_SIGNED_POW10 = st.builds(lambda s, e: s * 10.0 ** e, st.sampled_from([-1.0, 1.0]), st.floats(-3, 3))
_XS = st.one_of(st.just(0.0), _SIGNED_POW10, st.floats(-1.0, 1.0))
_BS = st.builds(lambda e: 10.0 ** e, st.floats(-8, 1))
_NICE_RATIOS = st.sampled_from([2.0, 4.0, 8.0, 16.0, 1.5, 3])
_RATIO = st.one_of(st.floats(1.05, 16.0), _NICE_RATIOS)
_RATIO_NONE = st.one_of(st.none(), st.floats(1.05, 16.0), _NICE_RATIOS)
_RATIO_CSTEP_DEFAULT_COUNT = st.one_of(st.floats(1.3, 16.0), _NICE_RATIOS)   # 2*round(16/ln r)+1 <= ~125
_NUM_STEPS = st.one_of(st.none(), st.integers(1, 25))
_SCALE = st.one_of(st.none(), st.floats(1.0, 20.0))
_DTHETA = st.one_of(st.floats(0.05, 1.5), st.floats(-1.5, -0.05), st.just(0.0))
_STEP_NOM = st.one_of(st.none(), st.floats(0.1, 10.0))
_OFFSET = st.one_of(st.integers(-4, 4), st.floats(-4, 4))
_BKIND = st.sampled_from(['unset', 'unset', 'unset', 'none', 'none', 'scalar', 'scalar', 'scalar', 'scalar',
                          'array', 'array', 'zero', 'tiny', 'array0'])
_CLS = st.sampled_from(['min', 'min', 'max', 'max', 'cstep'])
_METHOD = st.sampled_from(METHODS)
_ONE_TEN = st.integers(1, 10)
_XKIND = st.sampled_from(['zero', 'scalar', 'scalar', 'array', 'complex', 'int', 'intarray'])


@st.composite
def gen_case(draw):
    cls = draw(_CLS)
    method = draw(_METHOD)
    n = draw(_ONE_TEN)
    order = draw(_ONE_TEN)
    # --- x -------------------------------------------------------------------------------
    xkind = draw(_XKIND)
    if xkind == 'complex' and cls != 'cstep':
        xkind = 'scalar'
    size = draw(st.integers(1, 4))
    if xkind == 'zero':
        x = 0.0
    elif xkind == 'scalar':
        x = draw(_XS)
    elif xkind == 'array':
        x = [draw(_XS) for _ in range(size)]
    elif xkind == 'int':            # Python int / integer-dtype arrays are ordinary inputs (Derivative(f)(1))
        x = {'int': draw(st.integers(-1000, 1000))}
    elif xkind == 'intarray':
        x = {'ints': [draw(st.integers(-1000, 1000)) for _ in range(size)]}
    else:
        x = {'re': draw(_XS), 'im': draw(_XS)}
    # --- options -------------------------------------------------------------------------
    opts = {}
    bkind = draw(_BKIND)
    if bkind == 'none':
        opts['base_step'] = None
    elif bkind == 'scalar':
        opts['base_step'] = draw(_BS)
    elif bkind == 'zero':
        opts['base_step'] = 0.0
    elif bkind == 'tiny':
        opts['base_step'] = 10.0 ** draw(st.floats(-20, -17))
    elif bkind in ('array', 'array0'):
        k = size if xkind in ('array', 'intarray') else draw(st.integers(1, 4))
        b = [draw(_BS) for _ in range(k)]
        if bkind == 'array0':
            b[draw(st.integers(0, k - 1))] = 0.0
        opts['base_step'] = b
    if cls == 'cstep':
        _maybe(draw, opts, 'num_steps', _NUM_STEPS, 6)
        _maybe(draw, opts, 'step_ratio',
               _RATIO_CSTEP_DEFAULT_COUNT if opts.get('num_steps') is None else _RATIO)
        _maybe(draw, opts, 'scale', _SCALE, 4)
        _maybe(draw, opts, 'path', st.sampled_from(['radial', 'spiral', 'spiral']), 7)
        _maybe(draw, opts, 'dtheta', _DTHETA, 6)
    else:
        _maybe(draw, opts, 'step_ratio', _RATIO_NONE)
        _maybe(draw, opts, 'num_steps', _NUM_STEPS)
        _maybe(draw, opts, 'num_extrap', st.integers(0, 9), 4)
        _maybe(draw, opts, 'check_num_steps', st.booleans(), 4)
        _maybe(draw, opts, 'scale', _SCALE, 4)
    _maybe(draw, opts, 'step_nom', _STEP_NOM, 4)
    _maybe(draw, opts, 'offset', _OFFSET, 5)
    _maybe(draw, opts, 'use_exact_steps', st.booleans(), 5)
    return dict(cls=cls, method=method, n=n, order=order, xkind=xkind, x=x, bkind=bkind, options=opts)


def _x_value(x):
    if isinstance(x, dict) and 'int' in x:
        return int(x['int'])
    if isinstance(x, dict) and 'ints' in x:
        return np.array(x['ints'], dtype=np.int64)
    if isinstance(x, dict):
        return complex(x['re'], x['im'])
    if isinstance(x, list):
        return np.array(x, dtype=float)
    return float(x)


def _lib_options(options):
    out = dict(options)
    if isinstance(out.get('base_step'), list):
        out['base_step'] = np.array(out['base_step'], dtype=float)
    return out


def _make(cls, options):
    import numdifftools.step_generators as sg
    import numdifftools.limits as lim
    klass = {'min': sg.MinStepGenerator, 'max': sg.MaxStepGenerator, 'cstep': lim.CStepGenerator}[cls]
    return klass(**_lib_options(options))


def _ulp(v):
    return math.ulp(abs(float(v)))


def _fit(delta, imag, weight, lo, hi):
    """min over beta in [lo, hi] of max_i sqrt((delta_i - beta)**2 + imag_i**2) / weight_i  (convex in beta).

    Returns (beta, value, index of the worst element)."""
    def g(beta):
        return np.sqrt((delta - beta) ** 2 + imag ** 2) / weight
    a, b = max(lo, float(delta.min())), min(hi, float(delta.max()))
    if a > b:                       # the allowed interval lies beside every recovered value
        a = b = lo if lo > float(delta.max()) else hi
    if not delta.any() and not imag.any() and lo <= 0.0 <= hi:
        return 0.0, 0.0, 0            # every element reproduces the same B exactly
    for _ in range(40):
        if a == b:
            break
        m1, m2 = a + (b - a) / 3, b - (b - a) / 3
        if g(m1).max() <= g(m2).max():
            b = m2
        else:
            a = m1
    beta = (a + b) / 2
    vals = g(beta)
    for cand in (lo, hi, 0.0):      # exact candidates (bitwise comparisons must not be blurred)
        if lo <= cand <= hi and g(cand).max() <= vals.max():
            beta, vals = cand, g(cand)
    i = int(np.argmax(vals))
    return beta, float(vals[i]), i


def compare(res, steps, ctx, label):
    """Compare the library sequence ``steps`` with the resolved model ``res``.  Returns statistics."""
    shape = res.shape
    zero_sure = bool(np.all(res.b_hi == 0))
    nonzero_sure = bool(np.all(res.b_lo > 0))
    expected = {0} if zero_sure else set(res.counts) if nonzero_sure else set(res.counts) | {0}
    if len(steps) not in expected:
        raise Violation('count', '%s yields %d steps, the documentation gives %s'
                        % (label, len(steps), sorted(expected)), got=len(steps), want=sorted(expected))
    out = dict(count=len(steps), bitwise=False, worst_real=0.0, worst_spiral=0.0)
    if not steps:
        return out
    N = len(steps)
    rows = []
    for s in steps:
        a = np.asarray(s)
        try:
            rows.append(np.broadcast_to(a, shape))
        except ValueError:
            raise Violation('shape', '%s: a step of shape %s for x/base_step of shape %s'
                            % (label, a.shape, shape))
    arr = np.array(rows)
    if not np.all(np.isfinite(arr)):
        raise Violation('finite', '%s yields a non-finite step' % label)
    if np.iscomplexobj(arr) and not res.spiral and np.any(arr.imag != 0):
        raise Violation('structure', '%s yields complex steps on a radial path' % label)
    mag = np.abs(arr)[:, np.broadcast_to(res.b_hi > 0, shape)]       # elements documented non-zero
    if N > 1 and not np.all(mag[:-1] > mag[1:]):
        raise Violation('decreasing', '%s: magnitudes are not strictly decreasing: first steps %s'
                        % (label, mag[:3, :1].ravel().tolist()))
    exps = res.exponents(N)
    powers = [sm.exact_power(res.ratio, k) for k in exps]
    rr = res.real_ratio
    pow2 = (not res.spiral) and rr in (2.0, 4.0, 8.0, 16.0) and all(float(k) == int(k) for k in exps)
    out['bitwise'] = pow2
    flat = arr.reshape(N, -1)
    b_lo, b_hi = res.b_lo.ravel(), res.b_hi.ravel()
    b_mid = []
    kabs = np.array([abs(float(k)) for k in exps])
    factor = 1.0 + kabs if res.spiral else np.ones(N)
    tol = T_SPIRAL if res.spiral else (0.0 if pow2 else T_REAL)
    ref = int(np.argmin(kabs))                    # the element whose power is the best conditioned
    with mpmath.workprec(sm.PREC):
        for e in range(flat.shape[1]):
            if b_hi[e] == 0:        # this element is documented to be zero (whole steps were yielded
                if np.any(flat[:, e] != 0):     # because another element is not): it must be 0
                    raise Violation('base-step', '%s: element %d should be 0' % (label, e))
                b_mid.append(0.0)
                continue
            if res.spiral:
                col = [mpmath.mpc(complex(v).real, complex(v).imag) for v in flat[:, e]]
            else:
                col = [mpmath.mpf(float(np.real(v))) for v in flat[:, e]]
            quot = [c / p for c, p in zip(col, powers)]          # each should be the same real B
            b_ref = mpmath.re(quot[ref])
            if b_ref <= 0:
                raise Violation('structure', '%s: steps are not positive multiples of r**k' % label)
            delta = np.array([float((mpmath.re(q) - b_ref) / b_ref) for q in quot])
            imag = np.array([float(mpmath.im(q) / b_ref) for q in quot])
            relulp = np.array([_ulp(abs(b_ref * p)) / float(abs(b_ref * p)) for p in powers])
            weight = relulp * factor
            pinned = b_lo[e] == b_hi[e]
            slack = 0.0 if (pow2 and pinned) else B_SLACK * _ulp(b_lo[e])
            lo = float((mpmath.mpf(float(b_lo[e])) - slack - b_ref) / b_ref)
            hi = float((mpmath.mpf(float(b_hi[e])) + slack - b_ref) / b_ref)
            beta, worst, idx = _fit(delta, imag, weight, lo, hi)
            if worst > tol:
                free = _fit(delta, imag, weight, float(delta.min()), float(delta.max()))
                B = float(b_ref * (1 + free[0]))
                if free[1] > tol:
                    i = free[2]
                    raise Violation('structure',
                                    '%s: step %d (exponent %r, ratio %r) is %r; with the best common base '
                                    'step B = %r it is %.3g ulp%s away from B*r**k%s'
                                    % (label, i, exps[i], res.ratio,
                                       complex(col[i]) if res.spiral else float(col[i]), B,
                                       free[1] * factor[i], ' (allowed: %g per 1+|k|)' % tol if res.spiral
                                       else '', ' (power-of-two ratio: must be bitwise)' if pow2 else ''),
                                    index=i, ulp=free[1])
                raise Violation('base-step',
                                '%s: the sequence is B*r**k with B = %r, documented base_step*step_nom(x) '
                                'lies in [%r, %r] (|x| = %r)' % (label, B, float(b_lo[e]), float(b_hi[e]),
                                                                float(res.absx.ravel()[e])),
                                B=B, lo=float(b_lo[e]), hi=float(b_hi[e]))
            key = 'worst_spiral' if res.spiral else 'worst_real'
            out[key] = max(out[key], worst)
            b_mid.append(float(b_ref * (1 + beta)))
    out['B'] = b_mid
    return out


def check_monotone_nominal(res, b_mid, label):
    """Default nominal step must be non-decreasing in |x| over the elements of an array x."""
    opt = res.options
    if opt['step_nom'] is not None or len(b_mid) < 2:
        return
    absx = res.absx.ravel()
    b_lo, b_hi = res.b_lo.ravel(), res.b_hi.ravel()
    base = opt['base_step']
    items = []
    for e, B in enumerate(b_mid):
        if B == 0 or b_hi[e] == 0:
            continue
        if base is None:
            blo = bhi = None
        else:
            bb = np.broadcast_to(np.asarray(base, dtype=float), res.shape).ravel()[e]
            blo = bhi = float(bb)
        q = _ulp(1.0 + B) if opt['use_exact_steps'] else 0.0
        if blo is None:      # default base step: the same for every element; compare B directly
            lo, hi = B * (1 - 16 * U) - q, B * (1 + 16 * U) + q
        else:
            lo, hi = (B * (1 - 16 * U) - q) / bhi, (B * (1 + 16 * U) + q) / blo
        items.append((float(absx[e]), lo, hi))
    items.sort()
    running = -math.inf
    for ax, lo, hi in items:
        running = max(running, lo)
        if running > hi:
            raise Violation('nominal-monotone', '%s: the nominal step is not monotone in |x| '
                            '(at |x| = %r it is below the value at a smaller |x|)' % (label, ax))


class C10(Prop):
    id = 'C10'
    title = 'step generators produce the documented geometric sequences, and enough steps'
    rule = ('Drawn cases: class (Min/Max/CStep), every constructor option independently unset / None / '
            'value (base_step None, 10^U(-8,1), arrays, 0, 1e-20..1e-17; step_ratio None, U(1.05,16), '
            'powers of two; num_steps None, 1..25; step_nom None, U(0.1,10); offset integer or real in '
            '-4..4; num_extrap 0..9; use_exact_steps; check_num_steps; scale None, U(1,20); CStep path, '
            'dtheta), method x n 1..10 x order 1..10, x = 0 / +-10^U(-3,3) / [-1,1] / arrays of 1..4 / Python ints and int64 arrays in -1000..1000 / '
            'complex (CStep). Enumerated grid: 5 methods x n 1..10 (multicomplex n<=2) x order 1..10. '
            'Non-trivial = at least three options passed with a non-default value, or x != 0 (grid '
            'points count as non-trivial when order > 2 or n > 1); distinct by the whole case.')
    assumptions = ('mpmath power at 200 bits is exact for the purpose of a few-ulp comparison',
                   'the exponent of element i is the double fl(+-i + offset), the base step the double '
                   'fl(base_step*step_nom) passed through (v+1)-1 in double arithmetic iff use_exact_steps '
                   '(as is the ratio): the documented formulas evaluated in doubles',
                   'default nominal step: any value in [max(1, log(1+|x|)), max(1, log(e+|x|))], '
                   'monotone in |x| (docstring says log(e+|x|), code uses log(e-1+|x|) clipped at 1)',
                   'default base step EPS**(1/scale): +-64 ulp (pow and the float sum of the scale table)',
                   'an array step with some zero and some non-zero elements may be dropped or yielded '
                   '(the documentation does not say); all-zero steps must be dropped',
                   'CStepGenerator: num_extrap / check_num_steps are not documented for it and not drawn; '
                   'its docstring index range "i = 0..num_steps-1" contradicts "decreasing magnitude" of '
                   'the property: decreasing is asserted',
                   'grid: the generator is called with LogRule.method_order as Derivative._get_steps does')
    constants = {'T_REAL_ulp': T_REAL, 'T_SPIRAL_ulp_per_(1+|k|)': T_SPIRAL, 'B_SLACK_ulp': B_SLACK,
                 'base_default_slack_ulp': 64, 'nominal_slack_ulp': 8, 'power_of_two_ratio_ulp': 0}
    examples = {'quick': 4000, 'thorough': 100000}

    def strategy(self, tier):
        return gen_case()

    def enumerate(self, tier):
        for method in METHODS:
            for n in range(1, 11):
                if method == 'multicomplex' and n > 2:
                    continue
                for order in range(1, 11):
                    yield dict(grid=True, method=method, n=n, order=order)

    # ------------------------------------------------------------------------------------
    def check(self, case, ctx):
        if case.get('grid'):
            return self.check_grid(case, ctx)
        cls, method, n, order = case['cls'], case['method'], case['n'], case['order']
        options = case['options']
        x = _x_value(case['x'])
        label = '%s(%s)(x=%r, %r, n=%d, order=%d)' % (
            cls, ', '.join('%s=%r' % kv for kv in sorted(options.items())), case['x'], method, n, order)
        with ctx.lib('no-exception', label):
            gen = _make(cls, options)
            steps = list(gen(x, method, n, order))
        res = sm.resolve(cls, options, x, method, n, order)
        stats = compare(res, steps, ctx, label)
        if stats['count']:
            check_monotone_nominal(res, stats['B'], label)
        summ = dict(cls=cls, method=method, n=n, order=order, options=options, x=case['x'])
        if res.spiral:
            integer = all(float(k) == int(k) for k in res.exponents(1))
            ctx.track('spiral_ulp_err/(1+|k|) %s exponents' % ('integer' if integer else 'real'),
                      stats['worst_spiral'], summ)
        elif not stats['bitwise']:
            ctx.track('real_ulp_err', stats['worst_real'], summ)
        # --- coverage -------------------------------------------------------------------
        ctx.count('class=%s' % cls)
        ctx.count('method=%s' % method)
        ctx.count('x=%s' % case['xkind'])
        ctx.count('base_step=%s' % case['bkind'])
        for k in options:
            ctx.count('passed:%s' % k)
        if bool(np.all(res.b_hi == 0)):
            ctx.count('all steps dropped (zero base step)')
        elif not bool(np.all(res.b_lo > 0)):
            ctx.count('mixed zero/non-zero array step (either accepted): %s'
                      % ('dropped' if stats['count'] == 0 else 'yielded'))
        if stats['bitwise'] and stats['count']:
            ctx.count('bitwise (power-of-two ratio)')
        if res.spiral:
            ctx.count('spiral path')
        ctx.count('nominal %s' % ('pinned' if res.nominal_pinned else 'interval'))
        given = res.options['num_steps']
        if cls != 'cstep' and given is not None and res.options['check_num_steps'] and given < res.min_num_steps:
            ctx.count('num_steps raised to the minimum')
        defaults = sm.SIGNATURE_DEFAULTS[cls]
        changed = sum(1 for k, v in options.items() if v != defaults[k])
        nonzero_x = bool(np.any(np.abs(x) != 0))
        if changed >= 3 or nonzero_x:
            ctx.nontriv(case)
        ctx.sample(dict(case=case, library=[np.asarray(s).tolist() if not np.iscomplexobj(s)
                                            else str(np.asarray(s).tolist()) for s in steps[:3]],
                        model_count=list(res.counts), model_B=[float(res.b_lo.ravel()[0]),
                                                               float(res.b_hi.ravel()[0])],
                        model_ratio=str(res.ratio)))

    # ------------------------------------------------------------------------------------
    def check_grid(self, case, ctx):
        import numdifftools as nd
        import numdifftools.step_generators as sg
        from numdifftools.finite_difference import LogRule
        method, n, order = case['method'], case['n'], case['order']
        tag = '(%s, n=%d, order=%d)' % (method, n, order)
        ratio = 2.0 if n == 1 else 1.6
        with ctx.lib('no-exception', 'LogRule%s.rule' % tag):
            rule = LogRule(n=n, method=method, order=order)
            consumed = len(np.atleast_1d(rule.rule(ratio)))
            method_order = int(rule.method_order)
        # default_scale equals the table
        for o in sorted({order, method_order}):
            with ctx.lib('no-exception', 'default_scale%s' % tag):
                lib_scale = float(sg.default_scale(method, n, o))
            want = sm.default_scale(method, n, o)
            if abs(lib_scale - want) > 4 * _ulp(want):
                raise Violation('default-scale', 'default_scale(%r, %d, %d) = %r, table %r'
                                % (method, n, o, lib_scale, want), variant='scale')
        default_cls = 'min' if method in ('complex', 'multicomplex') else 'max'
        variants = [('default', default_cls, {}, None),
                    ('bare-min', 'min', {}, sg.MinStepGenerator),
                    ('bare-max', 'max', {}, sg.MaxStepGenerator),
                    ('scalar-step', 'min', dict(base_step=0.05, step_nom=1.0), 0.05)]
        for name, cls, options, step in variants:
            label = '%s generator %s' % (name, tag)
            with ctx.lib('no-exception', label):
                steps = list(_make(cls, options)(1.0, method, n, method_order))
            res = sm.resolve(cls, options, 1.0, method, n, method_order)
            compare(res, steps, ctx, label)
            if len(steps) < consumed:
                raise Violation('enough-steps', '%s yields %d steps, the rule consumes %d'
                                % (label, len(steps), consumed), variant=name)
            kwds = {}
            if step is not None:
                kwds['step'] = step() if callable(step) else step
            with warnings.catch_warnings():
                warnings.simplefilter('ignore')
                try:
                    value = nd.Derivative(np.exp, method=method, n=n, order=order, **kwds)(1.0)
                except Exception as exc:       # the property: no valid configuration fails
                    raise Violation('derivative-raises', 'Derivative(np.exp, method=%r, n=%d, order=%d%s)(1.0) '
                                    'raised %s: %s' % (method, n, order,
                                                       '' if step is None else ', step=<%s>' % name,
                                                       type(exc).__name__, exc), variant=name)
            if name == 'default':
                ctx.count('default Derivative value finite' if np.all(np.isfinite(value))
                          else 'default Derivative value not finite')
        ctx.count('grid:%s' % method)
        ctx.count('grid: default count - rule length = %d' % (len(
            list(_make(default_cls, {})(1.0, method, n, method_order))) - consumed))
        if sm.min_num_steps(method, n, order) < consumed:
            ctx.count('grid: note min_num_steps(raw order) < rule length (Derivative passes method_order)')
        if n > 1 or order > 2:
            ctx.nontriv(case)

    def finding_key(self, case, violation):
        if case is None:
            return {'clause': violation.clause}
        if case.get('grid'):
            return {'clause': violation.clause, 'grid': True, 'method': case['method'],
                    'variant': violation.details.get('variant')}
        return {'clause': violation.clause, 'cls': case['cls'],
                'exact': case['options'].get('use_exact_steps')}


PROP = C10()
