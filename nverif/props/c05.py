"""C05 - the user function is only evaluated where the chosen method promises.

Oracle: an invariant over the list of arguments the library passes to a recording wrapper around
an everywhere-defined polynomial.  Nothing numerical is compared with a reference value; the
only floating-point statements are one-sidedness (exact), symmetry of the central stencil
(within SYM_ULP ulp) and the reach bound  w * h_max  (within REACH_EPS eps relative and
REACH_ULP ulp(x) absolute), where h_max is the largest step the configuration's own step
generator yields (the steps are configuration, not result; C10 checks the generator).

Distance of an argument from x, per coordinate k:
  * real / complex argument p:   |p_k - x_k|                       (complex modulus)
  * Bicomplex argument (z1, z2): max(|z1_k - x_k|, |z2_k|)           (each part is one increment)

Stencil width w, derived from finite_difference.py:
  Derivative, Gradient, Jacobian: 1 for every method (x +- h, x + i h, x +- h (1+i)/sqrt 2,
      Bicomplex(x + i h, 0 | h));
  Hessdiag: 1, except central2 (x +- 2 h e_i): 2;
  Hessian: central (x +- 2 h e_i on the diagonal), central2, forward, backward
      (x +- h e_i +- h e_j with i == j): 2;  complex (x + i h e_i + h e_j, i == j): sqrt 2;
      multicomplex (Bicomplex(x + i h e_i, h e_j)): 1.
"""
import math
import warnings

import numpy as np
from hypothesis import strategies as st

from nverif.engine import Prop, Violation

EPS = 2.0 ** -52
# Rounding model: x +- h (+- h) costs at most two roundings, each <= ulp(|x| + w h)/2, and the
# check's own p - x one more; measured worst over the 8 calibration seeds (quick) and seeds 0, 1
# (thorough): symmetry defect 2.0 ulp, reach excess 2.0 units (the model allows 3: two roundings
# in x + h e_i + h e_i and one in p - x).  Constants are >= 10x that; the
# mutants move points by O(h) (h >= 1e-7 for all but the smallest drawn steps, unit ~ 1e-16 h + ulp x).
SYM_ULP = 32.0         # central symmetry: |d + d'| <= SYM_ULP * ulp(|x| + |d|) per coordinate
REACH_EPS = 32.0       # reach: |p - x| <= w h_max (1 + REACH_EPS eps) + REACH_ULP ulp(x)
REACH_ULP = 32.0

CLASSES = ('Derivative', 'Gradient', 'Jacobian', 'Hessdiag', 'Hessian')
METHODS = ('central', 'forward', 'backward', 'complex', 'multicomplex')
REAL_STEP = ('central', 'central2', 'forward', 'backward')
SQRT2 = math.sqrt(2.0)


def methods_of(cls):
    if cls in ('Hessian', 'Hessdiag'):
        return METHODS + ('central2',)
    return METHODS


def stencil_width(cls, method):
    if cls == 'Hessdiag':
        return 2.0 if method == 'central2' else 1.0
    if cls == 'Hessian':
        if method == 'complex':
            return SQRT2
        if method == 'multicomplex':
            return 1.0
        return 2.0
    return 1.0


def max_perturbed(cls):
    return {'Gradient': 1, 'Jacobian': 1, 'Hessdiag': 1, 'Hessian': 2}.get(cls)


# ---------------------------------------------------------------------------------------
# generator
# ---------------------------------------------------------------------------------------

def _ratio():
    return st.one_of(st.sampled_from([1.6, 2.0, 3.0, 4.0]),
                     st.floats(1.1, 6.0, allow_nan=False).map(float))


def _offset():
    return st.one_of(st.sampled_from([0, 1, -1, 2, -2]),
                     st.floats(-3.0, 3.0, allow_nan=False).map(float))


@st.composite
def step_options(draw, kind, dim, vector_ok):
    """Options of MinStepGenerator / MaxStepGenerator (each present with probability ~1/2)."""
    opts = {}
    if kind in ('min', 'max') and draw(st.booleans()):
        lo, hi = (-7.0, 0.0) if kind == 'min' else (-3.0, 0.5)
        if vector_ok and draw(st.integers(0, 3)) == 0:
            opts['base_step'] = [float(10.0 ** draw(st.floats(lo, hi))) for _ in range(dim)]
        else:
            opts['base_step'] = float(10.0 ** draw(st.floats(lo, hi)))
    if draw(st.booleans()):
        opts['step_ratio'] = draw(_ratio())
    if draw(st.booleans()):
        opts['num_steps'] = draw(st.integers(1, 15))
    if draw(st.booleans()):
        opts['offset'] = draw(_offset())
    if draw(st.booleans()):
        opts['num_extrap'] = draw(st.integers(0, 6))
    if draw(st.integers(0, 3)) == 0:
        opts['use_exact_steps'] = draw(st.booleans())
    return opts


@st.composite
def c05_case(draw):
    cls = draw(st.sampled_from(CLASSES))
    method = draw(st.sampled_from(methods_of(cls)))
    order = draw(st.integers(1, 8))
    n = 1
    if cls == 'Derivative':
        n = draw(st.integers(1, 2 if method == 'multicomplex' else 6))
    elif cls in ('Hessdiag', 'Hessian'):
        n = 2
    dim = draw(st.integers(1, 5))
    x = []
    for _ in range(dim):
        sign = draw(st.sampled_from([1.0, -1.0]))
        x.append(float(sign * 10.0 ** draw(st.floats(-3.0, 2.0))))
    xform = 'vector'
    if dim == 1:
        xform = draw(st.sampled_from(['scalar', 'vector']))
    kind = draw(st.sampled_from(['default', 'scalar', 'min', 'max']))
    step = {'kind': kind}
    vector_ok = (xform == 'vector')
    if kind == 'scalar':
        step['value'] = float(10.0 ** draw(st.floats(-6.0, 0.0)))
    if kind != 'default':
        step['opts'] = draw(step_options(kind, dim, vector_ok))
    elif draw(st.integers(0, 3)) == 0:
        step['opts'] = draw(step_options(kind, dim, False))
    case = dict(cls=cls, method=method, n=n, order=order, dim=dim, x=x, xform=xform, step=step,
                coefs=[float(draw(st.integers(-5, 5))) for _ in range(4)])
    if cls == 'Hessian':
        case['order_given'] = draw(st.booleans())
    if cls == 'Jacobian':
        case['out'] = draw(st.sampled_from(['scalar', 'vec1', 'vec2', 'vec3']))
    # one case in four reaches the configuration through the public property setters of a live
    # object that was constructed (and, half of the time, already called) with another method
    if draw(st.integers(0, 3)) == 0:
        others = [m for m in methods_of(cls) if m != method and not (m == 'multicomplex' and n > 2)]
        case['via'] = dict(first_method=draw(st.sampled_from(others)), called_before=draw(st.booleans()))
    return case


# ---------------------------------------------------------------------------------------
# the recorded polynomial
# ---------------------------------------------------------------------------------------

def make_polynomial(case):
    """Everywhere-defined polynomial using only + - * and indexing, argument always on the left."""
    c0, c1, c2, c3 = case['coefs']
    cls, dim = case['cls'], case['dim']
    if cls == 'Derivative':
        def poly(x):
            return x * x * x * c3 + x * x * c2 + x * c1 + c0
        return poly
    m = {'scalar': 0, 'vec1': 1, 'vec2': 2, 'vec3': 3}.get(case.get('out', 'scalar'), 0)

    def weight(i, scale):
        # python float for scalar outputs, length-m vector for Jacobian vector outputs
        if m == 0:
            return scale + 0.25 * i
        return np.array([scale + 0.25 * i + 0.5 * r for r in range(m)])

    def poly(x):
        acc = x[0] * weight(0, c1)
        for i in range(1, dim):
            acc = acc + x[i] * weight(i, c1)
        for i in range(dim):
            j = (i + 1) % dim
            acc = acc + x[i] * x[i] * weight(i, c2) + x[i] * x[j] * weight(i, c3)
        acc = acc + x[0] * x[dim - 1] * x[dim // 2] * weight(1, c3)
        return acc + weight(0, c0)
    return poly


class Recorder(object):
    def __init__(self, fn, bicomplex_type):
        self.fn, self.bicomplex_type, self.calls = fn, bicomplex_type, []

    def __call__(self, x):
        if isinstance(x, self.bicomplex_type):
            self.calls.append((np.array(x.z1, dtype=complex, copy=True),
                               np.array(x.z2, dtype=complex, copy=True)))
        else:
            self.calls.append((np.array(x, copy=True), None))
        return self.fn(x)


def build_step(case, nd):
    step = case['step']
    opts = dict(step.get('opts') or {})
    if isinstance(opts.get('base_step'), list):
        opts['base_step'] = np.array(opts['base_step'], dtype=float)
    kind = step['kind']
    if kind == 'default':
        return None, opts
    if kind == 'scalar':
        return step['value'], opts
    gen = nd.MinStepGenerator if kind == 'min' else nd.MaxStepGenerator
    return gen(**opts), {}


def case_label(case):
    return '%s(method=%r, order=%s%s, step=%s)(x=%r)' % (
        case['cls'], case['method'], case['order'],
        ', n=%d' % case['n'] if case['cls'] == 'Derivative' else '', case['step'], case['x']) + (
        ' [built with method=%r, then obj.method = %r%s]' % (case['via']['first_method'], case['method'],
                                                             ', after one call' if case['via']['called_before'] else '')
        if case.get('via') else '')


class C05(Prop):
    id = 'C05'
    title = 'The function is only evaluated where the chosen method promises'
    rule = ('Hypothesis draws class x method (plus central2 for Hessdiag/Hessian) x n 1..6 '
            '(Derivative; multicomplex n <= 2) x order 1..8 x dimension 1..5 x step in {default, '
            'scalar step, MinStepGenerator, MaxStepGenerator with drawn base_step (scalar or per '
            'coordinate), step_ratio, num_steps, offset, num_extrap, use_exact_steps} x x with '
            'coordinates sign*10^U(-3,2).  f is a recorded polynomial; every argument is copied. '
            'Asserted on the call list: forward >= x, backward <= x, real-step methods get real '
            'arguments, central offsets symmetric, multicomplex and complex (n=1, order<4) keep '
            'Re == x exactly, every offset <= w*h_max, <= 1 (Gradient/Jacobian/Hessdiag) or <= 2 '
            '(Hessian) perturbed coordinates.  Non-trivial = |x_k| >= h_max,k for some k and at '
            'least 4 recorded calls; distinct by the whole case.  One case in four builds the object '
            'with another method and reaches the configuration through `obj.method = ...` (half of '
            'those after a first call with the old method); only the calls made after the switch count.')
    assumptions = ('h_max is taken from the library step generator of the configuration '
                   '(obj.step.step_generator_function(x, method, n, method_order)); its values are '
                   'checked by C10',
                   'rounding model: one or two roundings in forming x +- h (+- h), each <= eps/2 '
                   'relative to |x| + w h; the comparison itself is done on exactly representable '
                   'differences or with the stated slack')
    constants = {'SYM_ULP': SYM_ULP, 'REACH_EPS': REACH_EPS, 'REACH_ULP': REACH_ULP}
    examples = {'quick': 1500, 'thorough': 25000}   # thorough: 400 000 cases, 5-13 min wall on a shared box

    def strategy(self, tier):
        return c05_case()

    # -----------------------------------------------------------------------------------
    def check(self, case, ctx):
        import numdifftools as nd
        from numdifftools.multicomplex import Bicomplex
        cls, method, n, order = case['cls'], case['method'], case['n'], case['order']
        x0 = np.array(case['x'], dtype=float)
        dim = x0.size
        x_in = float(case['x'][0]) if case['xform'] == 'scalar' else np.array(case['x'], dtype=float)
        rec = Recorder(make_polynomial(case), Bicomplex)
        step, opts = build_step(case, nd)
        kwds = dict(step=step, method=method, **opts)
        if cls == 'Derivative':
            kwds.update(order=order, n=n)
        elif cls == 'Hessian':
            if case.get('order_given'):
                kwds.update(order=order)
        else:
            kwds.update(order=order)
        label = case_label(case)
        with warnings.catch_warnings():
            warnings.simplefilter('ignore')
            via = case.get('via')
            if via:
                obj = getattr(nd, cls)(rec, **dict(kwds, method=via['first_method']))
                if via['called_before']:
                    try:
                        with np.errstate(all='ignore'):
                            obj(x_in)
                    except Exception:
                        pass
                obj.method = method
                del rec.calls[:]
                ctx.count('via method setter%s' % (' after a call' if via['called_before'] else ''))
            else:
                obj = getattr(nd, cls)(rec, **kwds)
            # the steps of the configuration, exactly as Derivative._get_steps asks for them
            x_i = np.asarray(x_in) if cls == 'Derivative' else np.atleast_1d(x_in)
            gen = obj.step.step_generator_function(x_i, obj.method, obj.n, obj.method_order)
            steps = [np.abs(np.asarray(s, dtype=float)) for s in gen()]
            if not steps:
                ctx.skip('the step generator yields no step')
            h_max = np.ravel(np.max([np.broadcast_to(s, x_i.shape) for s in steps], axis=0))
            if h_max.size != dim or not np.all(np.isfinite(h_max)) or np.any(h_max <= 0):
                ctx.skip('degenerate steps')
            try:
                with np.errstate(all='ignore'):
                    obj(x_in)
            except Exception as exc:       # the property is about where f is called, not this
                ctx.skip('library raised %s' % type(exc).__name__)
        calls = rec.calls
        ctx.count('%s/%s' % (cls, method))
        ctx.count('step=%s' % case['step']['kind'])
        self.assert_calls(case, ctx, label, calls, x0, h_max)
        if np.any(np.abs(x0) >= h_max) and len(calls) >= 4:
            ctx.nontriv(case)
            ctx.count('nontrivial %s/%s' % (cls, method))
        ctx.sample(dict(case=case, n_calls=len(calls), h_max=h_max.tolist()))

    # -----------------------------------------------------------------------------------
    def assert_calls(self, case, ctx, label, calls, x0, h_max):
        cls, method, n, order = case['cls'], case['method'], case['n'], case['order']
        dim = x0.size
        w = stencil_width(cls, method)
        ulp_x = np.spacing(np.abs(x0))
        keep_real = (method == 'multicomplex'
                     or (method == 'complex' and n == 1 and order < 4
                         and cls in ('Derivative', 'Gradient', 'Jacobian')))
        limit = max_perturbed(cls)
        offsets = []
        for idx, (z1, z2) in enumerate(calls):
            z1 = np.ravel(z1)
            if z1.size != dim or (z2 is not None and np.ravel(z2).size != dim):
                raise Violation('shape', '%s: call %d received an argument of size %d, x has %d'
                                % (label, idx, z1.size, dim), call=idx)
            z2 = np.zeros(dim, dtype=complex) if z2 is None else np.ravel(z2)
            re = np.real(z1).astype(float)
            im = np.imag(z1).astype(float) if np.iscomplexobj(z1) else np.zeros(dim)
            d_re = re - x0
            if method in REAL_STEP:
                if calls[idx][1] is not None or np.any(im != 0):
                    raise Violation('real-step', '%s: call %d received a non-real argument %r'
                                    % (label, idx, z1.tolist()), call=idx)
            if method == 'forward' and np.any(re < x0):
                raise Violation('forward', '%s: call %d evaluates below x: %r' % (label, idx, re.tolist()),
                                call=idx, argument=re.tolist())
            if method == 'backward' and np.any(re > x0):
                raise Violation('backward', '%s: call %d evaluates above x: %r' % (label, idx, re.tolist()),
                                call=idx, argument=re.tolist())
            if keep_real and np.any(re != x0):
                raise Violation('real-part', '%s: call %d changes the real part: Re z1 - x = %r'
                                % (label, idx, d_re.tolist()), call=idx, argument=re.tolist())
            # reach.  re - x0 is formed in floating point: one more rounding of relative size eps/2,
            # inside the REACH_EPS slack.
            dist = np.maximum(np.abs(d_re + 1j * im), np.abs(z2))
            unit = w * h_max * EPS + ulp_x
            excess = (dist - w * h_max) / unit
            worst = float(np.max(excess))
            ctx.track('reach excess / (w h_max eps + ulp x)', worst, dict(case=case, call=idx))
            bound = w * h_max * (1.0 + REACH_EPS * EPS) + REACH_ULP * ulp_x
            if np.any(dist > bound):
                k = int(np.argmax(dist - bound))
                raise Violation('reach', '%s: call %d is %.17g away from x in coordinate %d, '
                                'w*h_max = %g*%.17g' % (label, idx, dist[k], k, w, h_max[k]),
                                call=idx, coordinate=k, distance=float(dist[k]), h_max=float(h_max[k]), w=w)
            ctx.track('reach / (w h_max)', float(np.max(dist / (w * h_max))))
            if limit is not None:
                moved = int(np.count_nonzero((d_re != 0) | (im != 0) | (z2 != 0)))
                if moved > limit:
                    raise Violation('coordinates', '%s: call %d perturbs %d coordinates (at most %d)'
                                    % (label, idx, moved, limit), call=idx, moved=moved)
            if method in ('central', 'central2'):
                offsets.append(d_re)
        if method in ('central', 'central2') and offsets:
            self.assert_symmetric(case, ctx, label, np.array(offsets), x0)

    @staticmethod
    def assert_symmetric(case, ctx, label, offs, x0):
        """Every non-zero offset vector is matched by its negative, with equal multiplicity."""
        clause = 'central-symmetric' if case['method'] == 'central' else 'central2-symmetric'
        tol = SYM_ULP * np.spacing(np.abs(x0)[None, :] + np.abs(offs))
        nonzero = np.any(np.abs(offs) > tol, axis=1)
        idx = np.flatnonzero(nonzero)
        idx = idx[np.argsort(-np.max(np.abs(offs[idx]), axis=1), kind='stable')]   # large offsets first
        offs, tol = offs[idx], tol[idx]
        used = np.zeros(len(idx), dtype=bool)
        for a in range(len(idx)):
            if used[a]:
                continue
            used[a] = True
            err = np.abs(offs + offs[a][None, :])
            ok = np.all(err <= np.maximum(tol, tol[a][None, :]), axis=1) & ~used
            cand = np.flatnonzero(ok)
            if cand.size == 0:
                raise Violation(clause, '%s: offset %r (call %d) has no mirror image among the calls'
                                % (label, offs[a].tolist(), int(idx[a])), call=int(idx[a]),
                                offset=offs[a].tolist())
            # the closest candidate (ties are exact duplicates)
            b = cand[int(np.argmin(np.max(err[cand] / np.maximum(tol[cand], tol[a][None, :]), axis=1)))]
            used[b] = True
            ctx.track('symmetry defect / ulp(|x|+|d|)',
                      float(np.max(err[b] / np.spacing(np.abs(x0) + np.abs(offs[a])))))

    def finding_key(self, case, violation):
        return {'clause': violation.clause, 'cls': case.get('cls'), 'method': case.get('method')}

    def summary(self, case):
        return case


PROP = C05()
