"""C02 - the reported error estimate is honest; the full_output record is self-consistent.

Same case stream and oracle as C01 (full_output=True).  Clauses:
 (a) honesty    err <= K*error_estimate + kappa*eps*(S_n(h_f) + |x| S_{n+1})     [k_est >= 2]
 (b) calibration of the estimate on the pooled well-posed cases (coverage, q99)    [finalize]
 (c) record consistency (exact): f_value == f(x), estimate >= 0 and finite, final_step is one of
     the steps generated for its entry, one entry per result entry (and, for the real-step methods,
     entry j of the record equals the record of the scalar call at x[j]), index in range
"""
import math

import numpy as np

from nverif.engine import Prop, Violation
from nverif.oracle import exprs
from nverif.props import deriv_common as dc
from hypothesis import strategies as st

K_HONEST = 1e5        # fixed multiple of the reported estimate (95 % bound with a heavy tail)
KAPPA = 1e3           # rounding floor, multiples of eps * local scale at the reported final step
# (b) calibration of the estimate, pooled over the library-chosen step configurations with at
# least two estimates and n <= 6 of the real-step methods.  Unchanged tree, 20 quick-tier seeds
# (174..576 pooled cases per method): coverage 0.874..1.0, median 0.014..0.203, q90 0.39..1.73.
# The thresholds are deliberately loose (the pooled cases are correlated: arrays of points share
# one program): this clause is a tripwire for gross mis-calibration of the estimate, e.g. a
# dropped |result - e_2| term in dea3, not a precise statistic.  (multicomplex is not pooled: with
# several steps of ~1e-15 its errors are rounding noise, coverage varied between 0.90 and 0.99.)
POOLED = ('central', 'forward', 'backward')
COVERAGE_MIN = 0.70
Q50_MAX = 0.5
Q90_MAX = 5.0
POOL_MIN = 150


@st.composite
def ew_case(draw):
    """Arrays with >= 2 axes, real-step methods, correctly rounded test functions (C08's templates)."""
    from nverif.props import c08
    c = draw(c08.c08_case().filter(lambda c: len(c['shape']) >= 2 and c['method'] in dc.REAL_STEP
                                   and c['n'] >= 1))
    c['family'] = 'ew'
    return c


@st.composite
def c02_case(draw):
    case = draw(dc.derivative_case(full_output=True, n_min=1))
    case['meta_k'] = draw(st.sampled_from([None, None, None, 1, -1, 3, 10, -7, 20]))
    if draw(st.integers(0, 4)) == 0:
        stationary(case)
    return case


def stationary(case):
    """Turn the case into one whose exact n-th derivative at x0 is (nearly) zero while the truncation
    error of the difference formulas is not: f(x) = g(x) - c (x - x0)^n / n! with c = g^(n)(x0)
    rounded to double.  An estimate that is (wrongly) proportional to |value| is near zero there."""
    from nverif.oracle import jets
    n, x0 = case['n'], case['x'][0]
    try:
        c = float(jets.derivative_from_jet(exprs.jet_eval(case['tree'], x0, n + 1)[-1], n))
    except Exception:
        return
    if not math.isfinite(c) or c == 0.0 or not (1e-100 < abs(c / math.factorial(n)) < 1e100):
        return
    mono = ['x'] if False else ['-', ['x'], ['c', x0]]
    poly = mono if n == 1 else ['powi', mono, n]
    case['tree'] = ['-', case['tree'], ['*', ['c', c / math.factorial(n)], poly]]
    case['x'] = [x0]
    case['shape'] = None
    case['stationary'] = True


class C02(Prop):
    id = 'C02'
    title = 'Reported error estimate is honest; full_output record is self-consistent'
    rule = ('Three quarters of the cases: case stream of C01 with full_output=True (expression tree, x, method, n in 1..nmax, order 1..8, '
            'step configuration resolved against the certified analyticity radius). k_est = number of '
            'derivative estimates left after the finite-difference rule. Honesty (a) is asserted for '
            'k_est >= 2; a case is NON-TRIVIAL for (a) iff K*estimate + floor <= |exact|/2, i.e. a '
            'sign error or a factor 2 in the value would have been flagged as a dishonest estimate; '
            'record consistency (c) is asserted on every case.  Distinct by (tree, x, method, n, order, step).  One quarter of the cases: Gradient / Jacobian / '
            'Hessdiag / Hessian on generated multivariate programs (nverif/props/c02mv.py) with the same '
            'honesty clause per entry and the same record-consistency clauses.')
    assumptions = (
        'oracle and certificate as in C01',
        'K_HONEST = 1e5 is deliberately large: clause (a) is "a near-zero estimate is never returned '
        'together with a wrong value"; clause (b) watches the calibration of the estimate',
        'single-estimate configurations (k_est = 1) carry no information about truncation error: honesty '
        'is evaluated there too, but recorded as known finding F10 (see known_findings.json)',
    )
    constants = {'K_HONEST': K_HONEST, 'KAPPA': KAPPA, 'COVERAGE_MIN': COVERAGE_MIN, 'Q50_MAX': Q50_MAX,
                 'Q90_MAX': Q90_MAX, 'POOL_MIN': POOL_MIN, 'POOLED': POOLED}
    examples = {'quick': 380, 'thorough': 8000}

    def strategy(self, tier):
        from nverif.props import c02mv
        return st.one_of(c02_case(), c02_case(), c02_case(), c02_case(), c02mv.mv_case(), c02mv.mv_case(),
                         ew_case())

    # ------------------------------------------------------------------------------
    def _record_consistency(self, case, ev, ctx):
        info, val = ev.info, np.asarray(ev.val)
        fx = ev.f(ev.x_arr)
        with np.errstate(all='ignore'):
            if not np.array_equal(np.asarray(info.f_value), np.asarray(fx), equal_nan=True):
                raise Violation('record-f_value', 'info.f_value != f(x)', f_value=info.f_value, fx=fx)
        est = np.asarray(info.error_estimate)
        fstep = np.asarray(info.final_step)
        for name, arr in (('error_estimate', est), ('final_step', fstep)):
            if arr.size != val.size:
                raise Violation('record-shape', '%s has %d entries for %d result entries (shapes %s vs %s)'
                                % (name, arr.size, val.size, arr.shape, val.shape))
            try:
                np.broadcast_shapes(arr.shape, val.shape)
            except ValueError:
                raise Violation('record-shape', '%s shape %s not broadcast-compatible with result %s'
                                % (name, arr.shape, val.shape))
        est_r, val_r, fs_r = est.ravel(), val.ravel(), fstep.ravel()
        for j in range(val_r.size):
            if np.isfinite(val_r[j]):
                if not (np.isfinite(est_r[j]) and est_r[j] >= 0):
                    raise Violation('record-estimate', 'error_estimate %r for finite result %r'
                                    % (est_r[j], val_r[j]))
            hs = [float(np.ravel(s)[j]) for s in ev.steps]
            lo, hi = min(hs), max(hs)
            a = abs(fs_r[j])
            if not (lo * (1 - 4 * dc.EPS) <= a <= hi * (1 + 4 * dc.EPS)):
                raise Violation('record-final_step', 'final_step %r outside the generated steps [%r, %r]'
                                % (fs_r[j], lo, hi), method=case['method'])
            if not any(abs(a - h) <= 4 * dc.EPS * h for h in hs):
                raise Violation('record-final_step', 'final_step %r of entry %d is not one of the steps '
                                'generated for that entry' % (fs_r[j], j), method=case['method'])
        idx = np.asarray(info.index).ravel()
        if idx.size != val.size:
            raise Violation('record-shape', 'index has %d entries for %d results' % (idx.size, val.size))
        n_est_max = max(ev.k_est, 1) * val.size
        if np.any(idx < 0) or np.any(idx >= n_est_max):
            raise Violation('record-index', 'index %r does not address one of the %d estimates'
                            % (idx.tolist(), n_est_max))

    def _check_entrywise(self, case, ctx):
        """Family 'ew': entry j of error_estimate / final_step belongs to entry j of the result.
        Test functions use only + - * / sqrt (correctly rounded, as in C08), so for the real-step
        methods the record of element j of an array call must be bit-identical to the record of the
        call on the length-1 array [x_j]."""
        import numdifftools as nd
        import warnings
        from nverif.props import c08
        shape = tuple(case['shape'])
        x = np.array(case['xs'], dtype=float).reshape(shape)
        g = c08.base_function(case['template'], case['coefs'], case['d'])
        kw = dict(method=case['method'], n=case['n'], order=case['order'], full_output=True)
        if case['step'] == 'num_extrap':
            kw['num_extrap'] = case['num_extrap']
        elif case['step'] == 'scalar':
            kw['step'] = 10.0 ** case['log10_step']
        with warnings.catch_warnings():
            warnings.simplefilter('ignore')
            with ctx.lib('no-exception', 'Derivative on an array of shape %s' % (shape,)):
                with np.errstate(all='ignore'):
                    val, info = nd.Derivative(g, **kw)(x)
            est = np.asarray(info.error_estimate)
            fst = np.asarray(info.final_step)
            for name, arr in (('error_estimate', est), ('final_step', fst)):
                if arr.size != x.size:
                    raise Violation('record-shape', '%s has %d entries for %d result entries' % (name, arr.size, x.size))
                try:
                    np.broadcast_shapes(arr.shape, np.shape(val))
                except ValueError:
                    raise Violation('record-shape', '%s shape %s not broadcast-compatible with result %s'
                                    % (name, arr.shape, np.shape(val)))
            val, est, fst = np.ravel(val), np.ravel(est), np.ravel(fst)
            same = lambda a, b: bool(a == b or (a != a and b != b))      # noqa: E731
            for jj in sorted({0, x.size // 3, (2 * x.size) // 3, x.size - 1}):
                with ctx.lib('no-exception', 'Derivative on a length-1 array'):
                    with np.errstate(all='ignore'):
                        v1, i1 = nd.Derivative(g, **kw)(np.array([np.ravel(x)[jj]]))
                v1, e1, s1 = (float(np.ravel(v1)[0]), float(np.ravel(i1.error_estimate)[0]),
                              float(np.ravel(i1.final_step)[0]))
                if not same(float(val[jj]), v1):
                    ctx.count('ew: value differs from the single-element call (C08\'s subject)')
                    continue
                if not (same(float(est[jj]), e1) and same(float(fst[jj]), s1)):
                    raise Violation('record-entrywise', 'entry %d of an array of shape %s: error_estimate %r / '
                                    'final_step %r, but the call on that element alone gives %r / %r (same '
                                    'value %r)' % (jj, shape, float(est[jj]), float(fst[jj]), e1, s1, v1),
                                    method=case['method'])
        ctx.count('family=entrywise|%s|ndim=%d' % (case['method'], len(shape)))
        if len(shape) >= 2 and min(shape) >= 2 and len(set(case['xs'])) > 1:
            ctx.nontriv(dict(ew=case['xs'], shape=case['shape'], m=case['method'], n=case['n']))

    def check(self, case, ctx):
        if case.get('family') == 'ew':
            return self._check_entrywise(case, ctx)
        if case.get('family') == 'mv':
            from nverif.props import c02mv
            ctx.count('family=multivariate (%s)' % case.get('cls'))
            return c02mv.check_mv(case, ctx)
        ctx.count('family=Derivative%s' % (' (stationary point)' if case.get('stationary') else ''))
        ev = dc.evaluate(case, ctx)
        method, n, order = case['method'], case['n'], case['order']
        cplx = case.get('wrap') is not None
        ctx.count('method=%s' % method)
        ctx.count('kbucket=%s' % dc.kbucket(ev.k_est))
        ctx.count('step=%s' % case['step']['kind'])
        self._record_consistency(case, ev, ctx)
        est = np.asarray(ev.info.error_estimate).ravel()
        fstep = np.abs(np.asarray(ev.info.final_step).ravel())
        w = dc.stencil_width(method, n)
        key = dict(t=case['tree'], x=case['x'], m=method, n=n, o=order, s=case['step'])
        reach_ok = all(w * ev.hmax[j] <= ev.analyses[j].rho_cert / 4 for j in range(len(case['x'])))
        nontrivial = False
        for j, xv in enumerate(case['x']):
            lib = complex(ev.vals[j]) if cplx else ev.vals[j]
            if not np.isfinite(lib):
                raise Violation('finite', 'result %r at x=%r' % (lib, xv), method=method, n=n)
            a = ev.analyses[j]
            hf = float(fstep[j])
            S1 = ev.S1[j]
            # rounding of the rule at the step the library reports having used (validated above):
            # eps*sup|f|/h^n for rules that difference function values, relative rounding of the
            # derivative itself for the cancellation-free rules; times sum|rule weights|
            unit = dc.envelope_unit(a, n, 2 if method == 'multicomplex' else ev.d.method_order, [hf], w,
                                    dc.difference_forming(method, n, ev.d.order), ev.amp) if hf > 0 else None
            if unit is None or S1 is None or not math.isfinite(S1):
                ctx.count('scale unavailable')
                continue
            R = unit[2]
            err = abs(lib - ev.exact_f[j])
            sens = a.sensitivity(n)
            floor = KAPPA * (R + dc.EPS * ((sens[1] if sens else abs(xv) * S1) + abs(ev.exact_f[j])))
            e = float(est[j])
            if not reach_ok:
                ctx.count('honesty not asserted: reach > rho/4')
                continue
            excess = err - floor
            ratio = excess / e if e > 0 else (0.0 if excess <= 0 else math.inf)
            ctx.track('(err-floor)/est|%s|%s' % (method, 'k1' if ev.k_est < 2 else 'k2+'), ratio,
                      dict(f=exprs.show(case['tree']), x=xv, n=n, order=order, step=case['step'],
                           lib=lib, exact=ev.exact_f[j], est=e, floor=floor))
            if ratio > K_HONEST:
                raise Violation('honesty', '%s n=%d order=%d k_est=%d: |err|=%.3g but error_estimate=%.3g '
                                '(floor %.3g) lib=%r exact=%r x=%r f=%s'
                                % (method, n, order, ev.k_est, err, e, floor, lib, ev.exact_f[j], xv,
                                   exprs.show(case['tree'])), k_est=ev.k_est, ratio=ratio)
            if n <= 6 and e > 0 and ev.k_est >= 2 and dc.cfgclass(case) == 'default' and method in POOLED:
                ctx.record('err/est|%s' % method, err / e)
            if K_HONEST * e + floor <= abs(ev.exact_f[j]) / 2:
                nontrivial = True
        if nontrivial:
            ctx.nontriv(key)
        # clause (d) of the design (exact scaling f -> 2^k f) was removed: the property does not
        # state it and the library's absolute 1e-8 outlier threshold legitimately breaks it
        # (DESIGN.md section 10)
        ctx.sample(dict(dc.summary(case, ev), error_estimate=est[0], final_step=fstep[0]))

    def finding_key(self, case, v):
        if case is None:
            return {'clause': v.clause, 'method': v.details.get('method')}
        if case.get('family') == 'mv':
            from nverif.props import c02mv
            return c02mv.mv_finding_key(case, v)
        if case.get('family') == 'ew':
            return {'clause': v.clause, 'family': 'ew', 'method': case['method'], 'n': case['n'],
                    'exception': v.details.get('exception')}
        big = max(exprs.max_abs_argument(case['tree'], float(xv), ('tanh',)) for xv in case['x'])
        tiny = min(exprs.min_abs_pow_base(case['tree'], float(xv)) for xv in case['x'])
        huge = max(exprs.max_abs_pow_base(case['tree'], float(xv)) for xv in case['x'])
        inv = min(exprs.min_abs_argument(case['tree'], float(xv), ('arcsinh', 'arctanh', 'arctan', 'arcsin'))
                  for xv in case['x'])
        return {'clause': v.clause, 'method': case['method'], 'n': case['n'],
                'k_est': v.details.get('k_est'), 'ops': sorted(exprs.ops(case['tree'])),
                'tanh_arg_over_300': bool(big > 300), 'pow_base_below_1e-15': bool(tiny < 1e-15), 'pow_base_above_1e150': bool(huge > 1e150), 'inverse_function_arg_below_1e-2': bool(inv < 1e-2), 'step_kind': case['step']['kind'],
                'exception': v.details.get('exception')}

    def finalize(self, merged, tier):
        out = []
        for method in POOLED:
            vals = merged['values'].get('err/est|%s' % method, [])
            if len(vals) < POOL_MIN:
                merged['classes']['calibration|%s|skipped: only %d pooled cases' % (method, len(vals))] = 1
                continue
            s = sorted(vals)
            cover = sum(1 for v in s if v <= 1.0) / len(s)
            q50 = s[int(0.50 * (len(s) - 1))]
            q90 = s[int(0.90 * (len(s) - 1))]
            merged['classes']['calibration|%s|n=%d|coverage=%.3f|q50=%.3g|q90=%.3g'
                              % (method, len(s), cover, q50, q90)] = 1
            for name, bad, txt in (
                    ('calibration-coverage', cover < COVERAGE_MIN,
                     'only %.3f of %d pooled cases have err <= error_estimate (minimum %.2f)'
                     % (cover, len(s), COVERAGE_MIN)),
                    ('calibration-q50', q50 > Q50_MAX, 'median(err/estimate) = %.3g > %g over %d cases'
                     % (q50, Q50_MAX, len(s))),
                    ('calibration-q90', q90 > Q90_MAX, 'q90(err/estimate) = %.3g > %g over %d cases'
                     % (q90, Q90_MAX, len(s)))):
                if bad:
                    out.append(Violation(name, '%s: %s' % (method, txt), method=method, n=len(s)))
        return out


PROP = C02()
