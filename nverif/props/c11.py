"""C11 - misuse fails loudly with ValueError instead of returning numbers.

Every case is a pair: the MISUSE call (must raise ValueError or a subclass; returning anything or
raising another exception type is a violation) and its CONTROL twin - the same call with the
same numeric content and only the misuse removed - which must not raise (otherwise "it raises"
would mean nothing).  Only the misuse kinds listed in the property text are generated:

  complex-step   complex / multicomplex method with complex x, complex-valued f(x), or both,
                 for Derivative, Gradient, Jacobian, Hessdiag, Hessian
  vectorise      Derivative of an f that does not return one value per input element (scalar,
                 shorter, longer, transposed block) - never a shape that broadcasts against x
                 to itself (stacked values per element are differentiated component-wise)
  multicomplex-n Derivative(method='multicomplex', n in 3..6)
  num-steps      1 <= num_steps < rule length with check_num_steps=False
  directionaldiff  len(v) != x.size
  fd-weights     fd_weights / fd_weights_all with n >= len(x)
  fd-derivative  n >= len(x), or len(fx) != len(x)
  residue        Residue(order <= pole_order)
  path           CStepGenerator(path=unknown), Limit(path=unknown)
"""
import warnings

import numpy as np
from hypothesis import strategies as st

from nverif.engine import Prop, Violation

CLASSES = ('Derivative', 'Gradient', 'Jacobian', 'Hessdiag', 'Hessian')
CMETHODS = ('complex', 'multicomplex')
METHODS = ('central', 'forward', 'backward', 'complex', 'multicomplex')
KINDS = ('complex-x', 'complex-f', 'complex-both')
FAMILIES = ('complex-step', 'complex-step', 'complex-step', 'vectorise', 'vectorise',
            'multicomplex-n', 'num-steps', 'num-steps', 'directionaldiff', 'fd-weights',
            'fd-derivative', 'residue', 'path')
BAD_PATHS = ('circular', 'linear', 'diagonal', 'circle', 'line', 'spiral2', 'radial ', 'xyz',
             'polar', 'real', 'imag', 'zigzag')


# ---------------------------------------------------------------------------------------
# generator
# ---------------------------------------------------------------------------------------

def _coord(draw):
    return float(draw(st.sampled_from([1.0, -1.0])) * 10.0 ** draw(st.floats(-2.0, 1.0)))


def _decade(value):
    return 'Im decade 1e%+03d' % int(np.floor(np.log10(abs(value))))


def _tiny(draw):
    """Imaginary part with |Im| in 10^U(-12, 2), either sign."""
    exponent = draw(st.integers(-12, 1)) + draw(st.floats(0.0, 1.0))      # every decade equally likely
    return float(draw(st.sampled_from([1.0, -1.0])) * 10.0 ** exponent)


def _coefs(draw, k=4):
    return [float(draw(st.integers(-5, 5))) for _ in range(k)]


@st.composite
def complex_step_case(draw):
    cls = draw(st.sampled_from(CLASSES))
    method = draw(st.sampled_from(CMETHODS))
    kind = draw(st.sampled_from(KINDS))
    dim = draw(st.integers(1, 4))
    n = 1
    if cls == 'Derivative':
        n = draw(st.integers(1, 6 if method == 'complex' else 2))
    order = draw(st.integers(1, 8))
    x = [_coord(draw) for _ in range(dim)]
    # at least one coordinate gets a non-zero imaginary part; the others may stay real
    im = [_tiny(draw) if (i == 0 or draw(st.booleans())) else 0.0 for i in range(dim)]
    im = list(draw(st.permutations(im)))
    case = dict(family='complex-step', cls=cls, method=method, kind=kind, dim=dim, n=n, order=order,
                x=x, x_imag=im, f_imag=_tiny(draw), f_mode=draw(st.sampled_from(['add', 'mul'])),
                coefs=_coefs(draw), xform=draw(st.sampled_from(['scalar', 'vector'])) if dim == 1 else 'vector',
                step=draw(st.sampled_from([None, None, 0.01, 1e-4])))
    if cls == 'Jacobian':
        case['out'] = draw(st.sampled_from(['scalar', 'vec1', 'vec2', 'vec3']))
    if cls == 'Hessian':
        case['order_given'] = draw(st.booleans())
    if kind == 'complex-x':
        # f(x) = 0*x + c is real-valued even at complex x: only the check on x itself can fire
        case['f_flat'] = draw(st.integers(0, 2)) == 0
    return case


SHAPES = ([2], [3], [4], [5], [2, 1], [3, 1], [1, 2], [1, 4], [2, 3], [3, 2], [2, 2])


@st.composite
def vectorise_case(draw):
    shape = draw(st.sampled_from(SHAPES))
    size = int(np.prod(shape))
    modes = ['scalar', 'shorter', 'longer', 'constant']
    method = draw(st.sampled_from(METHODS))
    if method == 'multicomplex':
        modes.remove('constant')     # a float-returning f is a different misuse for Bicomplex arguments
    if len(shape) == 1:
        modes.append('block')            # (len, k) block, k != len
    elif shape[0] != shape[1]:
        modes.append('transposed')
    mode = draw(st.sampled_from(modes))
    k = 0
    if mode == 'block':
        k = draw(st.sampled_from([j for j in (1, 2, 3, 4, 5) if j != shape[0]]))
    n = draw(st.integers(1, 2 if method == 'multicomplex' else 4))
    return dict(family='vectorise', cls='Derivative', method=method, n=n, order=draw(st.integers(1, 6)),
                shape=shape, x=[_coord(draw) for _ in range(size)], mode=mode, k=k,
                coefs=_coefs(draw), step=draw(st.sampled_from([None, None, 0.01])))


@st.composite
def multicomplex_n_case(draw):
    dim = draw(st.integers(1, 3))
    return dict(family='multicomplex-n', cls='Derivative', method='multicomplex',
                n=draw(st.integers(3, 6)), n_control=draw(st.integers(1, 2)),
                order=draw(st.integers(1, 8)), x=[_coord(draw) for _ in range(dim)],
                xform=draw(st.sampled_from(['scalar', 'vector'])) if dim == 1 else 'vector',
                coefs=_coefs(draw), step=draw(st.sampled_from([None, None, 0.01])))


def rule_length(method, n, order):
    """Number of terms of the finite difference rule (independent restatement of the docs:
    (n - 1 + method_order) // richardson_step; multicomplex needs a single step)."""
    if method == 'multicomplex':
        return 1
    if method == 'complex':
        rstep = 4 if (n > 1 or order >= 4) else 2
    elif method == 'central':
        rstep = 2
    else:
        rstep = 1
    method_order = max((order // rstep) * rstep, rstep)
    return (n - 1 + method_order) // rstep


@st.composite
def num_steps_case(draw):
    cls = draw(st.sampled_from(['Derivative', 'Derivative', 'Gradient', 'Jacobian', 'Hessdiag']))
    method = draw(st.sampled_from(['central', 'forward', 'backward', 'complex']))
    n = {'Derivative': None, 'Hessdiag': 2}.get(cls, 1)
    # draw (n, order) with a rule of length >= 2, by construction
    for _ in range(20):
        nn = draw(st.integers(1, 6)) if n is None else n
        order = draw(st.integers(1, 8))
        if rule_length(method, nn, order) >= 2:
            break
    else:
        nn, order = (2 if n is None else n), 8
    length = rule_length(method, nn, order)
    dim = 1 if cls == 'Derivative' else draw(st.integers(1, 3))
    return dict(family='num-steps', cls=cls, method=method, n=nn, order=order, length=length,
                num_steps=draw(st.integers(1, max(1, length - 1))),
                num_steps_control=length + draw(st.integers(0, 4)),
                via=draw(st.sampled_from(['options', 'MinStepGenerator', 'MaxStepGenerator'])),
                x=[_coord(draw) for _ in range(dim)], coefs=_coefs(draw))


@st.composite
def directionaldiff_case(draw):
    dim = draw(st.integers(1, 4))
    vlen = draw(st.sampled_from([j for j in range(1, 7) if j != dim]))
    v = [_coord(draw) for _ in range(max(vlen, dim))]
    return dict(family='directionaldiff', dim=dim, vlen=vlen, x=[_coord(draw) for _ in range(dim)], v=v,
                method=draw(st.sampled_from(METHODS)), coefs=_coefs(draw))


def _nodes(draw, count):
    start = _coord(draw)
    out, cur = [], start
    for _ in range(count):
        out.append(float(cur))
        cur = cur + 10.0 ** draw(st.floats(-2.0, 0.0))
    return out


@st.composite
def fd_weights_case(draw):
    m = draw(st.integers(1, 8))
    return dict(family='fd-weights', func=draw(st.sampled_from(['fd_weights', 'fd_weights_all'])),
                nodes=_nodes(draw, m), x0=_coord(draw), n=m + draw(st.integers(0, 3)),
                n_control=draw(st.integers(0, m - 1)), as_list=draw(st.booleans()))


@st.composite
def fd_derivative_case(draw):
    n = draw(st.integers(1, 4))
    m = draw(st.integers(1, 2))
    need = 2 * (n // 2 + m) + 2
    nodes = _nodes(draw, need + draw(st.integers(0, 5)))
    kind = draw(st.sampled_from(['n>=len(x)', 'len(fx)!=len(x)', 'both']))
    case = dict(family='fd-derivative', kind=kind, n=n, m=m, nodes=nodes, coefs=_coefs(draw),
                as_list=draw(st.booleans()))
    if kind in ('n>=len(x)', 'both'):
        case['short'] = draw(st.integers(1, n))           # misuse uses the first `short` nodes
    if kind in ('len(fx)!=len(x)', 'both'):
        case['delta'] = draw(st.sampled_from([-3, -2, -1, 1, 2, 3]))
    return case


@st.composite
def residue_case(draw):
    p = draw(st.integers(1, 4))
    return dict(family='residue', pole_order=p, order=draw(st.integers(1, p)),
                order_control=p + draw(st.integers(1, 3)), z0=_coord(draw),
                res=float(draw(st.integers(1, 9))) * 0.5, method=draw(st.sampled_from(['above', 'below'])))


@st.composite
def path_case(draw):
    bad = draw(st.one_of(st.sampled_from(BAD_PATHS),
                         st.text(alphabet='abcdefghijklmnopqrstuvwxyz', min_size=1, max_size=8)))
    if bad in ('spiral', 'radial'):
        bad = bad + 'x'
    return dict(family='path', target=draw(st.sampled_from(['CStepGenerator', 'Limit'])), path=bad,
                path_control=draw(st.sampled_from(['radial', 'spiral'])), z0=_coord(draw),
                coefs=_coefs(draw))


FAMILY_STRATEGY = {
    'complex-step': complex_step_case, 'vectorise': vectorise_case, 'multicomplex-n': multicomplex_n_case,
    'num-steps': num_steps_case, 'directionaldiff': directionaldiff_case, 'fd-weights': fd_weights_case,
    'fd-derivative': fd_derivative_case, 'residue': residue_case, 'path': path_case,
}


@st.composite
def c11_case(draw):
    family = draw(st.sampled_from(FAMILIES))
    return draw(FAMILY_STRATEGY[family]())


# ---------------------------------------------------------------------------------------
# functions under differentiation (argument always on the left: Bicomplex has no __array_ufunc__)
# ---------------------------------------------------------------------------------------

def elementwise_poly(coefs):
    c0, c1, c2, c3 = coefs

    def poly(x):
        return x * x * x * c3 + x * x * (abs(c2) + 1.0) + x * c1 + c0
    return poly


def multivariate_poly(coefs, dim, out='scalar'):
    c0, c1, c2, c3 = coefs
    m = {'scalar': 0, 'vec1': 1, 'vec2': 2, 'vec3': 3}[out]

    def weight(i, scale):
        if m == 0:
            return scale + 0.25 * i
        return np.array([scale + 0.25 * i + 0.5 * r for r in range(m)])

    def poly(x):
        acc = x[0] * weight(0, c1)
        for i in range(1, dim):
            acc = acc + x[i] * weight(i, c1)
        for i in range(dim):
            j = (i + 1) % dim
            acc = acc + x[i] * x[i] * weight(i, abs(c2) + 1.0) + x[i] * x[j] * weight(i, c3)
        return acc + weight(0, c0)
    return poly


def flat_function(coefs, cls, dim, out='scalar'):
    """f(x) = 0 * x + c: real-valued (zero imaginary part) at every complex x."""
    c = abs(coefs[0]) + 1.0
    m = {'scalar': 0, 'vec1': 1, 'vec2': 2, 'vec3': 3}[out]
    if cls == 'Derivative':
        return lambda x: x * 0.0 + c
    if m == 0:
        return lambda x: x[0] * 0.0 + x[dim - 1] * 0.0 + c
    return lambda x: x[0] * np.zeros(m) + (c + np.arange(m))


def complexified(fn, mode, c):
    if mode == 'add':
        return lambda x: fn(x) + 1j * c
    return lambda x: fn(x) * (1.0 + 1j * c)


def short(value, limit=160):
    try:
        text = repr(np.asarray(value).tolist())
    except Exception:
        text = repr(value)
    return text if len(text) <= limit else text[:limit] + '...'


def expect_value_error(call, clause, what, **details):
    """The misuse call must raise ValueError (or a subclass)."""
    try:
        with warnings.catch_warnings():
            warnings.simplefilter('ignore')
            with np.errstate(all='ignore'):
                out = call()
    except ValueError:
        return
    except (MemoryError, Violation):
        raise
    except Exception as exc:
        raise Violation(clause, '%s raised %s instead of ValueError: %s'
                        % (what, type(exc).__name__, str(exc)[:200]),
                        outcome='raised ' + type(exc).__name__, **details)
    raise Violation(clause, '%s returned %s instead of raising ValueError' % (what, short(out)),
                    outcome='returned', returned=short(out, 400), **details)


def expect_return(call, clause, what, **details):
    """The control twin must not raise."""
    try:
        with warnings.catch_warnings():
            warnings.simplefilter('ignore')
            with np.errstate(all='ignore'):
                return call()
    except (MemoryError, Violation):
        raise
    except Exception as exc:
        raise Violation(clause, 'CONTROL %s raised %s: %s' % (what, type(exc).__name__, str(exc)[:200]),
                        outcome='control raised ' + type(exc).__name__, **details)


class C11(Prop):
    id = 'C11'
    title = 'Misuse fails loudly with ValueError instead of returning numbers'
    rule = ('A deterministic grid (5 classes x {complex, multicomplex} x {complex x, complex f, both} x '
            'dimension 1..4, plus one case per remaining family and mode) and Hypothesis draws over '
            'the nine misuse families with drawn numeric content (|Im| in 10^U(-12,2), n, order, '
            'shapes, lengths, node sets).  Every case runs the misuse call (must raise ValueError) '
            'and its control twin with the misuse removed (must not raise), so control calls are '
            '50 % of all library calls.  Non-trivial = the misuse raised ValueError and the twin '
            'returned; distinct by the whole case.')
    assumptions = ('"complex" means np.iscomplex: a non-zero imaginary part (checked on the inputs by '
                   'the harness before the call); complex dtype with zero imaginary part is not misuse',
                   'a non-vectorised output is one whose shape does not broadcast against x to itself; '
                   'stacked outputs (m, len(x)) are excluded as the design states',
                   'num_steps misuse is 1 <= num_steps < rule length, rule length restated from the '
                   'documented formula and cross-checked against LogRule.rule().size (num_steps = 0 '
                   'is not generated)')
    constants = {}
    examples = {'quick': 300, 'thorough': 5000}

    def strategy(self, tier):
        return c11_case()

    def enumerate(self, tier):
        cases = []
        for ci, cls in enumerate(CLASSES):
            for mi, method in enumerate(CMETHODS):
                for ki, kind in enumerate(KINDS):
                    for dim in (1, 2, 3, 4):
                        e = -12 + ((ci * 7 + mi * 5 + ki * 3 + dim * 11) % 15)
                        e2 = -12 + ((ci * 3 + mi * 7 + ki * 5 + dim * 2) % 15)
                        im = [0.0] * dim
                        im[(ci + dim) % dim] = 10.0 ** e
                        n = 1 + ((ci + mi + ki + dim) % 2) if cls == 'Derivative' else 1
                        case = dict(family='complex-step', cls=cls, method=method, kind=kind, dim=dim, n=n,
                                    order=2 * (1 + (ki + dim) % 4), x=[0.5 + 0.75 * i for i in range(dim)],
                                    x_imag=im, f_imag=-(10.0 ** e2),
                                    f_mode=('add', 'mul')[(ci + dim) % 2], coefs=[1.0, -2.0, 3.0, 0.5],
                                    xform='vector', step=None)
                        if cls == 'Jacobian':
                            case['out'] = ('scalar', 'vec1', 'vec2', 'vec3')[dim - 1]
                        if cls == 'Hessian':
                            case['order_given'] = False
                        if kind == 'complex-x':
                            case['f_flat'] = dim % 2 == 0
                        cases.append(case)
        grid = {'scalar': (([3], 0), ([2, 1], 0), ([2, 3], 0)),
                'shorter': (([4], 0), ([2], 0), ([1, 4], 0)),
                'longer': (([2], 0), ([5], 0), ([3, 1], 0)),
                'block': (([3], 2), ([2], 3), ([4], 1)),
                'transposed': (([2, 3], 0), ([3, 2], 0), ([1, 4], 0)),
                'constant': (([3], 0), ([2, 2], 0), ([1, 2], 0))}
        for method in METHODS:
            for mode in sorted(grid):
                if mode == 'constant' and method == 'multicomplex':
                    continue
                for j, (shape, k) in enumerate(grid[mode]):
                    cases.append(dict(family='vectorise', cls='Derivative', method=method, n=1 + j % 2,
                                      order=2 + 2 * (j % 2), shape=shape, mode=mode, k=k,
                                      x=[0.5 + 0.25 * i for i in range(int(np.prod(shape)))],
                                      coefs=[1.0, -2.0, 3.0, 0.5], step=None))
        for n in (3, 4, 5, 6):
            cases.append(dict(family='multicomplex-n', cls='Derivative', method='multicomplex', n=n,
                              n_control=1 + n % 2, order=2, x=[0.75], xform='scalar',
                              coefs=[1.0, -2.0, 3.0, 0.5], step=None))
        return cases

    # -----------------------------------------------------------------------------------
    def check(self, case, ctx):
        family = case['family']
        getattr(self, 'check_' + family.replace('-', '_'))(case, ctx)
        ctx.count('family=%s' % family)
        ctx.count('calls: misuse')
        ctx.count('calls: control')
        ctx.nontriv(case)

    # --- complex-step methods on complex input -------------------------------------------
    def check_complex_step(self, case, ctx):
        import numdifftools as nd
        cls, method, kind, dim = case['cls'], case['method'], case['kind'], case['dim']
        if cls == 'Derivative':
            real_f = elementwise_poly(case['coefs'])
        else:
            real_f = multivariate_poly(case['coefs'], dim, case.get('out', 'scalar'))
        if case.get('f_flat') and kind == 'complex-x':
            real_f = flat_function(case['coefs'], cls, dim, case.get('out', 'scalar'))
        cplx_f = complexified(real_f, case['f_mode'], case['f_imag'])
        xr = np.array(case['x'], dtype=float)
        xc = xr + 1j * np.array(case['x_imag'], dtype=float)
        if case['xform'] == 'scalar':
            xr, xc = float(xr[0]), complex(xc[0])
        bad_x = kind in ('complex-x', 'complex-both')
        bad_f = kind in ('complex-f', 'complex-both')
        x_mis = xc if bad_x else xr
        f_mis = cplx_f if bad_f else real_f
        # preconditions of the property, checked by the harness on its own inputs
        if bad_x and not np.any(np.iscomplex(x_mis)):
            ctx.skip('x has no non-zero imaginary part')
        x_eval = x_mis if cls == 'Derivative' else np.atleast_1d(x_mis)
        if bad_f and not np.any(np.iscomplex(f_mis(x_eval))):
            ctx.skip('f(x) has no non-zero imaginary part')
        kwds = dict(method=method, step=case.get('step'))
        if cls == 'Derivative':
            kwds.update(n=case['n'], order=case['order'])
        elif cls != 'Hessian' or case.get('order_given'):
            kwds.update(order=case['order'])
        klass = getattr(nd, cls)
        what = '%s(f, %s)(%s) with %s' % (
            cls, ', '.join('%s=%r' % kv for kv in sorted(kwds.items())), short(x_mis),
            {'complex-x': 'complex x', 'complex-f': 'f(x) = p(x) %s' % (
                '+ i*%r' % case['f_imag'] if case['f_mode'] == 'add' else '* (1 + i*%r)' % case['f_imag']),
             'complex-both': 'complex x and complex-valued f (Im %r)' % case['f_imag']}[kind])
        expect_value_error(lambda: klass(f_mis, **kwds)(x_mis), kind, what,
                           cls=cls, method=method)
        expect_return(lambda: klass(real_f, **kwds)(xr), 'control/complex-step',
                      '%s(f real, %s)(%s)' % (cls, kwds, short(xr)), cls=cls, method=method)
        ctx.count('%s/%s/%s' % (cls, method, kind))
        if case.get('f_flat') and kind == 'complex-x':
            ctx.count('complex-x with f(x) real-valued at the complex x')
        if bad_x:
            ctx.count('x: ' + _decade(max(abs(v) for v in case['x_imag'])))
        if bad_f:
            ctx.count('f: ' + _decade(case['f_imag']))

    # --- f that is not vectorised ---------------------------------------------------------
    def check_vectorise(self, case, ctx):
        import numdifftools as nd
        from numdifftools.multicomplex import Bicomplex
        shape, mode, k = tuple(case['shape']), case['mode'], case['k']
        x = np.array(case['x'], dtype=float).reshape(shape)
        base = elementwise_poly(case['coefs'])

        def rebuild(r, fn):
            if isinstance(r, Bicomplex):
                return Bicomplex(fn(r.z1), fn(r.z2))
            return fn(np.asarray(r))

        def reshape_out(r):
            if mode == 'scalar':
                return r[(0,) * len(shape)] + r[(-1,) * len(shape)]
            if mode == 'constant':
                return 1.0 + float(case['coefs'][0])          # ignores x altogether
            if mode == 'shorter':
                return rebuild(r, lambda a: a.ravel()[:-1])
            if mode == 'longer':
                return rebuild(r, lambda a: np.concatenate([a.ravel(), a.ravel()[:1]]))
            if mode == 'block':      # (len, k): the values of element i are in row i
                return rebuild(r, lambda a: np.stack([a * (j + 1) for j in range(k)], axis=-1))
            return rebuild(r, lambda a: a.T.copy())            # transposed

        def bad_f(xx):
            return reshape_out(base(xx))
        out_shape = np.shape(np.asarray(bad_f(x)))
        try:
            stacked = np.broadcast_shapes(out_shape, shape) == tuple(out_shape)
        except ValueError:
            stacked = False
        if stacked or int(np.prod(out_shape, dtype=int)) == x.size and out_shape == shape:
            ctx.skip('output shape broadcasts against x (component-wise differentiation, not misuse)')
        kwds = dict(method=case['method'], n=case['n'], order=case['order'], step=case.get('step'))
        what = 'Derivative(f, %s)(x of shape %s) with f returning shape %s (%s)' % (
            ', '.join('%s=%r' % kv for kv in sorted(kwds.items())), shape, tuple(out_shape), mode)
        expect_value_error(lambda: nd.Derivative(bad_f, **kwds)(x), 'vectorise/' + mode, what,
                           cls='Derivative', method=case['method'], out_shape=list(out_shape))
        expect_return(lambda: nd.Derivative(base, **kwds)(x), 'control/vectorise',
                      'Derivative(f vectorised, %s)(x of shape %s)' % (kwds, shape),
                      cls='Derivative', method=case['method'])
        ctx.count('vectorise/%s/%s' % (case['method'], mode))

    # --- multicomplex with n >= 3 ---------------------------------------------------------
    def check_multicomplex_n(self, case, ctx):
        import numdifftools as nd
        f = elementwise_poly(case['coefs'])
        x = float(case['x'][0]) if case['xform'] == 'scalar' else np.array(case['x'], dtype=float)
        kw = dict(method='multicomplex', order=case['order'], step=case.get('step'))
        expect_value_error(lambda: nd.Derivative(f, n=case['n'], **kw)(x), 'multicomplex-n',
                           'Derivative(f, n=%d, %s)(%s)' % (case['n'], kw, short(x)),
                           cls='Derivative', method='multicomplex')
        expect_return(lambda: nd.Derivative(f, n=case['n_control'], **kw)(x), 'control/multicomplex-n',
                      'Derivative(f, n=%d, %s)(%s)' % (case['n_control'], kw, short(x)),
                      cls='Derivative', method='multicomplex')
        ctx.count('multicomplex-n/n=%d' % case['n'])

    # --- fewer steps than the rule needs --------------------------------------------------
    def check_num_steps(self, case, ctx):
        import numdifftools as nd
        from numdifftools import finite_difference as fdm
        cls, method, n, order = case['cls'], case['method'], case['n'], case['order']
        rule_cls = {'Derivative': fdm.LogRule, 'Gradient': fdm.LogJacobianRule,
                    'Jacobian': fdm.LogJacobianRule, 'Hessdiag': fdm.LogHessdiagRule}[cls]
        length = rule_length(method, n, order)
        if length != case['length'] or not 1 <= case['num_steps'] < length:
            ctx.skip('inconsistent case')
        with warnings.catch_warnings():
            warnings.simplefilter('ignore')
            lib_length = int(np.size(rule_cls(n=n, method=method, order=order).rule(2.0)))
        if lib_length != length:
            ctx.skip('rule length model (%d) differs from LogRule.rule().size' % length)
        x = np.array(case['x'], dtype=float)
        if cls == 'Derivative':
            f, x = elementwise_poly(case['coefs']), float(x[0])
        else:
            f = multivariate_poly(case['coefs'], len(case['x']),
                                  'vec2' if cls == 'Jacobian' else 'scalar')
        klass = getattr(nd, cls)
        kw = dict(method=method, order=order)
        if cls == 'Derivative':
            kw['n'] = n

        def build(num_steps):
            via = case['via']
            if via == 'options':
                return klass(f, num_steps=num_steps, check_num_steps=False, **kw)
            gen = nd.MinStepGenerator if via == 'MinStepGenerator' else nd.MaxStepGenerator
            return klass(f, step=gen(num_steps=num_steps, check_num_steps=False), **kw)
        what = '%s(f, %s, num_steps=%%d, check_num_steps=False via %s)(%s); the rule has %d terms' % (
            cls, kw, case['via'], short(x), length)
        expect_value_error(lambda: build(case['num_steps'])(x), 'num-steps', what % case['num_steps'],
                           cls=cls, method=method)
        expect_return(lambda: build(case['num_steps_control'])(x), 'control/num-steps',
                      what % case['num_steps_control'], cls=cls, method=method)
        ctx.count('num-steps/%s/%s' % (cls, method))

    # --- directionaldiff ------------------------------------------------------------------
    def check_directionaldiff(self, case, ctx):
        import numdifftools as nd
        dim, vlen = case['dim'], case['vlen']
        f = multivariate_poly(case['coefs'], dim)
        x = np.array(case['x'], dtype=float)
        v_bad = np.array(case['v'][:vlen], dtype=float)
        v_ok = np.array(case['v'][:dim], dtype=float)
        if vlen == dim:
            ctx.skip('inconsistent case')
        expect_value_error(lambda: nd.directionaldiff(f, x, v_bad, method=case['method']),
                           'directionaldiff', 'directionaldiff(f, x (size %d), v (size %d), method=%r)'
                           % (dim, vlen, case['method']), method=case['method'])
        expect_return(lambda: nd.directionaldiff(f, x, v_ok, method=case['method']),
                      'control/directionaldiff', 'directionaldiff(f, x (size %d), v (size %d), method=%r)'
                      % (dim, dim, case['method']), method=case['method'])
        ctx.count('directionaldiff/%s' % ('v longer' if vlen > dim else 'v shorter'))

    # --- fornberg -------------------------------------------------------------------------
    def check_fd_weights(self, case, ctx):
        import numdifftools.fornberg as ndf
        nodes = list(case['nodes'])
        m = len(nodes)
        if len(set(nodes)) != m or not (case['n'] >= m > case['n_control'] >= 0):
            ctx.skip('inconsistent case')
        x = nodes if case['as_list'] else np.array(nodes, dtype=float)
        fn = getattr(ndf, case['func'])
        expect_value_error(lambda: fn(x, case['x0'], case['n']), 'fd-weights',
                           '%s(x (len %d), x0=%r, n=%d)' % (case['func'], m, case['x0'], case['n']),
                           func=case['func'])
        expect_return(lambda: fn(x, case['x0'], case['n_control']), 'control/fd-weights',
                      '%s(x (len %d), x0=%r, n=%d)' % (case['func'], m, case['x0'], case['n_control']),
                      func=case['func'])
        ctx.count('fd-weights/%s' % case['func'])

    def check_fd_derivative(self, case, ctx):
        import numdifftools.fornberg as ndf
        kind, n, m = case['kind'], case['n'], case['m']
        nodes = list(case['nodes'])
        if len(set(nodes)) != len(nodes) or len(nodes) < 2 * (n // 2 + m) + 2:
            ctx.skip('inconsistent case')
        poly = elementwise_poly(case['coefs'])
        x_ok = np.array(nodes, dtype=float)
        fx_ok = poly(x_ok)
        x_bad, fx_bad = x_ok, fx_ok
        if kind in ('n>=len(x)', 'both'):
            x_bad = x_ok[:case['short']]
            fx_bad = fx_ok[:case['short']]
        if kind in ('len(fx)!=len(x)', 'both'):
            want = len(x_bad) + case['delta']
            if want < 1:
                want = len(x_bad) + abs(case['delta'])
            fx_bad = poly(np.array((nodes + [nodes[-1] + 1.0, nodes[-1] + 2.0, nodes[-1] + 3.0])[:want]))
        if len(x_bad) > n and len(fx_bad) == len(x_bad):
            ctx.skip('inconsistent case')
        if case['as_list']:
            x_bad, fx_bad = list(x_bad), list(fx_bad)
        expect_value_error(lambda: ndf.fd_derivative(fx_bad, x_bad, n=n, m=m), 'fd-derivative/' + kind,
                           'fd_derivative(fx (len %d), x (len %d), n=%d, m=%d)'
                           % (len(fx_bad), len(x_bad), n, m), kind=kind)
        expect_return(lambda: ndf.fd_derivative(fx_ok, x_ok, n=n, m=m), 'control/fd-derivative',
                      'fd_derivative(fx (len %d), x (len %d), n=%d, m=%d)' % (len(fx_ok), len(x_ok), n, m),
                      kind=kind)
        ctx.count('fd-derivative/%s' % kind)

    # --- limits ---------------------------------------------------------------------------
    def check_residue(self, case, ctx):
        from numdifftools.limits import Residue
        p, z0, res = case['pole_order'], case['z0'], case['res']
        if not 1 <= case['order'] <= p < case['order_control']:
            ctx.skip('inconsistent case')

        def f(z):
            d = z - z0
            return res / d ** p * (1.0 + d)
        expect_value_error(lambda: Residue(f, order=case['order'], pole_order=p, method=case['method'])(z0),
                           'residue', 'Residue(f, order=%d, pole_order=%d, method=%r)(%r)'
                           % (case['order'], p, case['method'], z0))
        expect_return(lambda: Residue(f, order=case['order_control'], pole_order=p, method=case['method'])(z0),
                      'control/residue', 'Residue(f, order=%d, pole_order=%d, method=%r)(%r)'
                      % (case['order_control'], p, case['method'], z0))
        ctx.count('residue/order%spole_order' % ('=' if case['order'] == p else '<'))

    def check_path(self, case, ctx):
        from numdifftools.limits import CStepGenerator, Limit
        bad, good, z0 = case['path'], case['path_control'], case['z0']
        if bad in ('spiral', 'radial'):
            ctx.skip('inconsistent case')
        poly = elementwise_poly(case['coefs'])
        p0 = poly(z0)

        def f(z):
            return (poly(z) - p0) / (z - z0)
        if case['target'] == 'CStepGenerator':
            expect_value_error(lambda: list(CStepGenerator(path=bad)(np.asarray(z0))), 'path/CStepGenerator',
                               'CStepGenerator(path=%r)' % bad, target='CStepGenerator')
            expect_return(lambda: list(CStepGenerator(path=good)(np.asarray(z0))), 'control/path',
                          'CStepGenerator(path=%r)' % good, target='CStepGenerator')
        else:
            expect_value_error(lambda: Limit(f, path=bad)(z0), 'path/Limit',
                               'Limit(f, path=%r)(%r)' % (bad, z0), target='Limit')
            expect_return(lambda: Limit(f, path=good)(z0), 'control/path',
                          'Limit(f, path=%r)(%r)' % (good, z0), target='Limit')
        ctx.count('path/%s' % case['target'])

    def finding_key(self, case, violation):
        key = {'clause': violation.clause, 'family': case.get('family')}
        for name in ('cls', 'method', 'outcome'):
            value = violation.details.get(name, case.get(name))
            if value is not None:
                key[name] = value
        return key


PROP = C11()
