"""C08 - array inputs are handled elementwise and keep their shape; extra arguments are forwarded.

Metamorphic oracle: D(x)[i] vs D(x')[i] (x' equals x at i only) vs D(scalar x[i]).
Test functions use only + - * / and sqrt on the argument (each correctly rounded), so that the value
at an element cannot depend on vector length or position.
"""
import warnings

import numpy as np
from hypothesis import strategies as st

from nverif.engine import Prop, Violation

METHODS = ['central', 'forward', 'backward', 'complex', 'multicomplex']
REAL_STEP = ('central', 'forward', 'backward')
EPS = 2.0 ** -52
# the reported estimates are 95 % bounds: the difference of two evaluations may exceed their sum by a
# small factor in noise-dominated configurations (thorough tier: 9 of 92 676 cases exceeded the plain
# sum, by factors of about 2); a fixed multiple is allowed, as the honesty clause of C02 does
K_EST = 20.0


def _coef():
    return st.floats(-3.0, 3.0).map(lambda v: round(v, 2))


@st.composite
def c08_case(draw):
    ndim = draw(st.integers(0, 3))
    shape = []
    total = 1
    for _ in range(ndim):
        k = draw(st.integers(1, max(1, min(8, 40 // total))))
        shape.append(k)
        total *= k
    xs = [draw(st.sampled_from([-1.0, 1.0])) * 10.0 ** draw(st.floats(-3.0, 2.0)) for _ in range(total)]
    i = draw(st.integers(0, total - 1))
    xs2 = [draw(st.sampled_from([-1.0, 1.0])) * 10.0 ** draw(st.floats(-3.0, 2.0)) for _ in range(total)]
    xs2[i] = xs[i]
    method = draw(st.sampled_from(METHODS))
    n = draw(st.sampled_from([0, 1, 1, 1, 2, 2] if method == 'multicomplex' else [0, 1, 1, 1, 2, 2, 3, 4, 5]))
    order = draw(st.integers(1, 8))
    template = draw(st.sampled_from(['poly', 'rational', 'sqrt', 'mixed']))
    coefs = [draw(_coef()) for _ in range(4)]
    d = round(draw(st.floats(0.5, 4.0)), 2)
    # extra arguments: positional scale a (scalar or array like x), keyword shift k (scalar/array)
    a_kind = draw(st.sampled_from(['none', 'scalar', 'array']))
    k_kind = draw(st.sampled_from(['none', 'scalar', 'array']))
    a_vals = [round(draw(st.floats(0.5, 2.0)), 3) for _ in range(total if a_kind == 'array' else 1)]
    k_vals = [round(draw(st.floats(-2.0, 2.0)), 3) for _ in range(total if k_kind == 'array' else 1)]
    a_vals2 = [round(draw(st.floats(0.5, 2.0)), 3) for _ in range(len(a_vals))]
    k_vals2 = [round(draw(st.floats(-2.0, 2.0)), 3) for _ in range(len(k_vals))]
    if a_kind == 'array':
        a_vals2[i] = a_vals[i]
    else:
        a_vals2 = a_vals
    if k_kind == 'array':
        k_vals2[i] = k_vals[i]
    else:
        k_vals2 = k_vals
    step = draw(st.sampled_from(['default', 'default', 'num_extrap', 'scalar']))
    return dict(shape=shape, xs=xs, xs2=xs2, i=i, method=method, n=n, order=order, template=template,
                coefs=coefs, d=d, a_kind=a_kind, k_kind=k_kind, a=a_vals, k=k_vals, a2=a_vals2,
                k2=k_vals2, step=step, num_extrap=draw(st.integers(0, 6)),
                log10_step=draw(st.floats(-4.0, -1.0)),
                layout=draw(st.sampled_from(['C', 'C', 'F', 'S'])), layout2=draw(st.sampled_from(['C', 'F', 'S'])))


def base_function(template, c, d):
    c0, c1, c2, c3 = c

    def g(x):
        if template == 'poly':
            return ((c3 * x + c2) * x + c1) * x + c0
        if template == 'rational':
            return ((c2 * x + c1) * x + c0) / (x * x + d)
        if template == 'sqrt':
            return c1 * np.sqrt(x * x + d) + c0 * x
        return (c0 + c1 * x) / np.sqrt(x * x + d) + c2 * x * x
    return g


class Recorder(object):
    """f(x, *args, **kwds) = g(x) * a + k; records what it was called with."""

    def __init__(self, g):
        self.g = g
        self.calls = []

    def __call__(self, x, *args, **kwds):
        self.calls.append((args, dict(kwds)))
        out = self.g(x)
        if args:
            out = out * args[0]
        if 'k' in kwds:
            out = out + kwds['k']
        return out


class C08(Prop):
    id = 'C08'
    title = 'Array inputs are handled elementwise and keep their shape'
    rule = ('Hypothesis draws a shape with 0..3 axes and <= 40 elements (C-ordered, Fortran-ordered or a strided view), x = +-10^U(-3,2) per element, an '
            'index i, a second array x\' equal to x at i and redrawn elsewhere, method, n, order, a test '
            'function from four templates using only + - * / sqrt (correctly rounded), an optional extra '
            'positional argument (scalar or array like x) and an optional keyword argument.  Compared: '
            'D(x)[i], D(x\')[i] (bitwise: value, error_estimate, final_step) and D(x[i]) as a scalar '
            '(bitwise for the real-step methods, within 20 x the sum of the two error estimates + 4 eps|value| for the '
            'complex-step methods); with extra arguments, the second call of one object at the same x with the other '
            'argument set vs a fresh object (bitwise: value, error_estimate, final_step, f_value).  NON-TRIVIAL iff the array has >= 2 elements and the replaced neighbours changed '
            'the selected estimate (row of info.index) of at least one other element; distinct by case.')
    assumptions = ('+, -, *, / and sqrt of IEEE doubles are correctly rounded in numpy for scalars and arrays',
                   'numpy complex multiplication may differ in the last bit between scalar and array code '
                   'paths (hence the tolerance for the complex-step methods, as the property states)')
    constants = {'complex_scalar_vs_array_tolerance': 'K_EST*(estimate_array + estimate_scalar) + 4*eps*|value|', 'K_EST': K_EST}
    examples = {'quick': 250, 'thorough': 8000}

    def strategy(self, tier):
        return c08_case()

    def _derivative(self, nd, case, rec):
        kw = dict(method=case['method'], n=case['n'], order=case['order'], full_output=True)
        if case['step'] == 'num_extrap':
            kw['num_extrap'] = case['num_extrap']
        elif case['step'] == 'scalar':
            kw['step'] = 10.0 ** case['log10_step']
        return nd.Derivative(rec, **kw)

    def _call(self, ctx, nd, case, x, a, k, what):
        rec = Recorder(base_function(case['template'], case['coefs'], case['d']))
        d = self._derivative(nd, case, rec)
        args = ()
        kwds = {}
        if case['a_kind'] != 'none':
            args = (a,)
        if case['k_kind'] != 'none':
            kwds = {'k': k}
        with warnings.catch_warnings():
            warnings.simplefilter('ignore')
            with ctx.lib('no-exception', 'Derivative(%s, n=%d, order=%d) on %s' % (
                    case['method'], case['n'], case['order'], what)):
                with np.errstate(all='ignore'):
                    val, info = d(x, *args, **kwds)
        # forwarding: every call received exactly the given args / kwds
        if not rec.calls:
            raise Violation('forwarding', 'f was never called')
        for cargs, ckw in rec.calls:
            ok = len(cargs) == len(args) and all(u is v for u, v in zip(cargs, args)) \
                and set(ckw) == set(kwds) and all(ckw[q] is kwds[q] for q in kwds)
            if not ok:
                raise Violation('forwarding', 'f received args=%r kwds=%r, expected args=%r kwds=%r'
                                % (cargs, ckw, args, kwds), method=case['method'])
        return val, info

    def _noise_scale(self, nd, case, xi):
        """(k_est, 1e3*eps*sup|f|*sum|rule|/h_min^n): what last-bit differences can be amplified to."""
        g = base_function(case['template'], case['coefs'], case['d'])
        d = self._derivative(nd, case, g)
        gen = d.step.step_generator_function(np.asarray(xi), d.method, d.n, d.method_order)
        hs = [abs(float(h)) for h in gen()]
        rule = np.atleast_1d(d.fd_rule.rule(gen.step_ratio))
        k_est = len(hs) - rule.size + 1
        hmax, hmin = max(hs), min(hs)
        with np.errstate(all='ignore'):
            sup = max(abs(complex(g(xi + hmax * np.exp(1j * t)))) for t in np.linspace(0, 2 * np.pi, 16,
                                                                                       endpoint=False))
        amp = max(abs(float(np.ravel(case['a'])[0])) if case['a_kind'] != 'none' else 1.0, 1.0) * 2.0
        return k_est, 1e3 * EPS * sup * amp * float(np.sum(np.abs(rule))) / hmin ** case['n']

    def check(self, case, ctx):
        import numdifftools as nd
        shape = tuple(case['shape'])
        i = case['i']
        method = case['method']
        def laid_out(arr, layout):
            # same logical array in C order, Fortran order, or as a strided (non-contiguous) view
            if arr.ndim == 0 or layout == 'C':
                return arr
            if layout == 'F':
                return np.asfortranarray(arr)
            wide = np.zeros(arr.shape[:-1] + (2 * arr.shape[-1],))
            wide[..., ::2] = arr
            return wide[..., ::2]
        x = laid_out(np.array(case['xs'], dtype=float).reshape(shape), case.get('layout', 'C'))
        x2 = laid_out(np.array(case['xs2'], dtype=float).reshape(shape), case.get('layout2', 'C'))
        ctx.count('memory layout x/x\'=%s/%s' % (case.get('layout', 'C'), case.get('layout2', 'C')))

        def arg(kind, vals):
            if kind == 'array':
                return np.array(vals, dtype=float).reshape(shape)
            return float(vals[0])
        a, a2 = arg(case['a_kind'], case['a']), arg(case['a_kind'], case['a2'])
        k, k2 = arg(case['k_kind'], case['k']), arg(case['k_kind'], case['k2'])
        v1, info1 = self._call(ctx, nd, case, x, a, k, 'x')
        v2, info2 = self._call(ctx, nd, case, x2, a2, k2, "x'")
        ctx.count('method=%s' % method)
        ctx.count('ndim=%d' % len(shape))
        ctx.count('args=%s/%s' % (case['a_kind'], case['k_kind']))
        for nm, v in (('D(x)', v1), ("D(x')", v2)):
            if np.shape(v) != shape:
                raise Violation('shape', '%s has shape %s for x of shape %s' % (nm, np.shape(v), shape),
                                method=method)
        for nm, arr in (('error_estimate', info1.error_estimate), ('final_step', info1.final_step)):
            if np.size(arr) != x.size:
                raise Violation('shape', 'info.%s has %d entries for %d elements' % (nm, np.size(arr), x.size))
        f1 = [np.ravel(v1)[i], np.ravel(info1.error_estimate)[i], np.ravel(info1.final_step)[i]]
        f2 = [np.ravel(v2)[i], np.ravel(info2.error_estimate)[i], np.ravel(info2.final_step)[i]]
        for nm, u, w in zip(('value', 'error_estimate', 'final_step'), f1, f2):
            if not (u == w or (np.isnan(u) and np.isnan(w))):
                raise Violation('independence', "element %d: %s is %r in D(x) but %r in D(x') although "
                                "x[i] == x'[i]" % (i, nm, u, w), method=method, field=nm)
        # scalar evaluation of the same element
        xi = float(np.ravel(x)[i])
        ai = float(np.ravel(a)[i]) if case['a_kind'] == 'array' else a
        ki = float(np.ravel(k)[i]) if case['k_kind'] == 'array' else k
        vs, infos = self._call(ctx, nd, case, xi, ai, ki, 'scalar x[i]')
        if np.shape(vs) != ():
            raise Violation('shape', 'scalar x gives result of shape %s' % (np.shape(vs),), method=method)
        u, w = f1[0], float(vs)
        if method in REAL_STEP:
            if not (u == w or (np.isnan(u) and np.isnan(w))):
                raise Violation('scalar-vs-array', 'element %d: %r in the array call, %r as a scalar '
                                '(real-step methods must be bit-identical)' % (i, u, w), method=method)
        else:
            est_sum = abs(f1[1]) + abs(float(np.ravel(infos.error_estimate)[0]))
            tol = K_EST * est_sum + 4 * EPS * abs(u)
            if est_sum > 0 and np.isfinite(u) and np.isfinite(w):
                ctx.track('|array - scalar| / (est_array + est_scalar) [complex-step]', abs(u - w) / est_sum,
                          dict(method=method, n=case['n'], order=case['order'], step=case['step']))
            if not (abs(u - w) <= tol or (np.isnan(u) and np.isnan(w))):
                # classify: is the difference explained by last-bit differences of complex arithmetic
                # amplified by 1/h^n (then it is the dishonest single-estimate error of finding F10),
                # or is it a gross scalar-vs-array disagreement?
                k_est, noise = self._noise_scale(nd, case, xi)
                raise Violation('scalar-vs-array', 'element %d: %r in the array call, %r as a scalar, '
                                'difference above the error estimate %g (k_est=%d, rounding-noise scale '
                                '%.3g)' % (i, u, w, tol, k_est, noise), method=method, k_est=k_est,
                                noise_explained=bool(abs(u - w) <= noise))
        # reuse: one object called at the same x twice with different extra arguments must return, the
        # second time, exactly what a fresh object returns for those arguments (nothing remembered
        # from the first call - f(x), differences, steps - may enter the second result)
        if case['a_kind'] != 'none' or case['k_kind'] != 'none':
            rec_r = Recorder(base_function(case['template'], case['coefs'], case['d']))
            d_r = self._derivative(nd, case, rec_r)
            mk = lambda aa, kk: (((aa,) if case['a_kind'] != 'none' else ()),          # noqa: E731
                                 ({'k': kk} if case['k_kind'] != 'none' else {}))
            with warnings.catch_warnings():
                warnings.simplefilter('ignore')
                with ctx.lib('no-exception', 'Derivative(%s, n=%d, order=%d) called twice at x' % (
                        method, case['n'], case['order'])):
                    with np.errstate(all='ignore'):
                        (ar, kw_), (ar2, kw2) = mk(a, k), mk(a2, k2)
                        d_r(x, *ar, **kw_)
                        vb, infob = d_r(x, *ar2, **kw2)
            vf, infof = self._call(ctx, nd, case, x, a2, k2, 'x (fresh object, second arguments)')
            for nm, u, w in (('value', vb, vf), ('error_estimate', infob.error_estimate, infof.error_estimate),
                             ('final_step', infob.final_step, infof.final_step),
                             ('f_value', infob.f_value, infof.f_value)):
                if not np.array_equal(np.asarray(u), np.asarray(w), equal_nan=True):
                    raise Violation('reuse', 'second call of one object at the same x with other extra arguments: '
                                    '%s is %r, a fresh object gives %r' % (nm, np.asarray(u), np.asarray(w)),
                                    method=method, field=nm)
            ctx.count('reuse clause evaluated')
        if x.size >= 2:
            ncol = x.size
            r1 = np.ravel(info1.index) // ncol
            r2 = np.ravel(info2.index) // ncol
            others = np.arange(ncol) != i
            if np.any(r1[others] != r2[others]):
                ctx.nontriv(case)
                ctx.count('nontrivial|%s' % method)
        ctx.sample(dict(shape=list(shape), method=method, n=case['n'], order=case['order'], i=i,
                        x_i=xi, value=u, scalar_value=w, template=case['template']))

    def finding_key(self, case, v):
        return {'clause': v.clause, 'method': case['method'], 'n': case['n'],
                'exception': v.details.get('exception'), 'field': v.details.get('field'),
                'k_est': v.details.get('k_est'), 'noise_explained': v.details.get('noise_explained')}


PROP = C08()
