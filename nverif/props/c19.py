"""C19 - nd_scipy wrappers return the Jacobian / gradient and respect bounds.

Programs and exact Jacobians from nverif.oracle.multivar; the evaluation points, extra arguments and
keywords of every call of f are recorded by the callable itself.

Clauses
  shape       Jacobian: (m, n) for a length-m vector output (m >= 1), (n,) for a 0-d output;
              Gradient: (n,), 0-d for n = 1
  finite      no NaN/inf
  forwarded   every call of f received exactly the extra args / kwds of the outer call
  reuse       a second call of one object at the same x with other extra arguments equals, bit for bit,
              that call on a fresh object (f's value depends on the arguments)
  bounds      every evaluation point p satisfies lo <= Re p <= hi componentwise
  affine-cs   complex method on an affine map: |J - A|_ej <= 16 eps |A_ej|  (measured <= 0.93 eps |A|)
  accuracy    |J - exact|_ej <= T + C_R * R + 64 eps |exact|  with, from the recorded offsets of coordinate j
              (h = smallest, reach = largest offset) and the majorant M of multivar along e_j,
                T = min_{2 reach <= R <= certified} M(R) reach^p / (R^(p+1) (1 - reach/R))    truncation, rigorous:
                    p = 1 forward (2-point), p = 2 central (3-point, two- or one-sided) and complex step;
                    T = 0 for affine maps
                R = eps * (M(reach)/h + (n+2) (noise/h + cond))      difference rules (rounding of f, of the
                                                                     ridge arguments)
                R = eps * (min_R M(R)/(R - h) + (n+2) cond)          complex step (no difference)
  grad-row    nd_scipy.Gradient(f)(x) == squeeze(nd_scipy.Jacobian(f)(x.ravel())), bitwise
"""
import math
import os
import warnings

import numpy as np
from hypothesis import strategies as st

from nverif.engine import Prop, Violation
from nverif.oracle import multivar as mv

EPS = 2.0 ** -52
CALIBRATE = bool(os.environ.get('NVERIF_CALIBRATE'))
FLOOR = 64.0
AFFINE_CS = 16.0
C_R = 64.0
OVERFLOW = 1e150
METHODS = ['central', 'forward', 'complex']
GRIDS = [(1, 2), (2, 1), (2, 2), (2, 3), (3, 2), (1, 5), (3, 1)]
KINDS = ('affine', 'affine', 'quadratic', 'ridge', 'ridge', 'ridge')
POSITIONS = ['interior', 'interior', 'lower-face', 'upper-face', 'narrow-low', 'narrow-high', 'free']


@st.composite
def c19_case(draw):
    api = draw(st.sampled_from(['jacobian', 'jacobian', 'gradient']))
    grid = None
    if api == 'jacobian':
        base = draw(mv.mv_cases(n=st.integers(1, 6), m=st.integers(1, 5), kinds=KINDS,
                                containers=('0d', 'len1', 'vec', 'vec', 'vec')))
        xform = draw(st.sampled_from(['list', 'array']))
    else:
        xform = draw(st.sampled_from(['list', 'array', 'grid', 'gridF']))
        container = ('0d', '0d', 'len1')
        if xform in ('grid', 'gridF'):
            grid = list(draw(st.sampled_from(GRIDS)))
            base = draw(mv.mv_cases(n=grid[0] * grid[1], kinds=KINDS, containers=container))
        else:
            base = draw(mv.mv_cases(n=st.integers(1, 6), kinds=KINDS, containers=container))
    n = base['prog']['n']
    x = base['x']
    method = draw(st.sampled_from(METHODS))
    step = None if draw(st.booleans()) else float('%.3g' % 10.0 ** draw(st.floats(-8.0, -3.0)))
    args = [round(draw(st.floats(-3, 3)), 3) for _ in range(draw(st.integers(0, 2)))]
    kwds = {k: round(draw(st.floats(-3, 3)), 3) for k in draw(st.sampled_from([[], ['alpha'], ['alpha', 'beta']]))}
    bounds = None
    if draw(st.integers(0, 2)) > 0:
        lo, hi, pos = [], [], []
        for j in range(n):
            unit = 1e-2 * (1.0 + abs(x[j]))
            p = draw(st.sampled_from(POSITIONS))
            wide_lo = x[j] - unit * 10.0 ** draw(st.floats(0.0, 2.0))
            wide_hi = x[j] + unit * 10.0 ** draw(st.floats(0.0, 2.0))
            tiny = abs(x[j]) * 10.0 ** draw(st.floats(-15.0, -7.0))
            l, h = wide_lo, wide_hi
            if p == 'lower-face':
                l = x[j]
            elif p == 'upper-face':
                h = x[j]
            elif p == 'narrow-low':
                l = x[j] - tiny
            elif p == 'narrow-high':
                h = x[j] + tiny
            elif p == 'free':
                l, h = None, None
            if p in ('interior', 'lower-face', 'narrow-low') and draw(st.integers(0, 3)) == 0:
                h = None
            if p in ('interior', 'upper-face', 'narrow-high') and draw(st.integers(0, 3)) == 0:
                l = None
            lo.append(l)
            hi.append(h)
            pos.append(p)
        bounds = dict(lo=lo, hi=hi, pos=pos)
    return dict(base, api=api, xform=xform, grid=grid, method=method, step=step, args=args, kwds=kwds,
                bounds=bounds, u=round(draw(st.floats(0.0, 0.5)), 3))


def model_steps(method, step, x):
    """scipy's documented absolute steps: rel_step*|x|, default eps^(1/2) (2-point, cs) or eps^(1/3)
    (3-point) times max(1, |x|)."""
    x = np.abs(np.asarray(x, dtype=float))
    if step is not None:
        return step * x
    rel = EPS ** (1.0 / 3.0) if method == 'central' else EPS ** 0.5
    return rel * np.maximum(1.0, x)


class C19(Prop):
    id = 'C19'
    title = 'nd_scipy wrappers return the Jacobian/gradient and respect bounds'
    rule = ('Hypothesis draws f: R^n -> R^m (n 1..6, m 1..5; 0-d, length-1 and length-m outputs) from '
            'nverif.oracle.multivar (affine with dense asymmetric A, quadratic, ridge programs over the C01 '
            'operation set), x_l = +-10^U(-3, 2) as list / array / n1 x n2 array in C or Fortran memory order (Gradient), method in '
            '{central, forward, complex}, step None or 10^U(-8, -3) (scaled down when 2 * stencil-width * h '
            '* |a_j| would leave rho_cert/2 of a ridge factor), 0..2 extra positional arguments and 0..2 '
            'keywords, and in 2/3 of the cases a box: per coordinate interior / x on the lower or upper face '
            '/ one side narrower than any step / unbounded, at least one side >= 1e-2 (1+|x_j|) wide, +-inf '
            'mixed in.  Exact Jacobian from 60-digit jets; evaluation points recorded by f.  NON-TRIVIAL iff '
            'an entry has bound <= |exact|/2 and (m != n, or a box where x sits on / next to a face towards '
            'which the unconstrained step points, so that scipy had to flip or shrink the step); distinct '
            'by (program, x, api, method, step, bounds).')
    assumptions = (
        'mpmath 60-digit jets and chain rule exact to < 1e-30 relative',
        'truncation term T follows from Cauchy estimates on the certified disc (no free constant); rounding '
        'constant C_R calibrated >= 10x above the worst ratio over 8 seeds',
        'scipy.optimize._numdiff.approx_derivative semantics for rel_step / bounds (read from scipy 1.18)',
        'clause relative-step (a given step s moves coordinate j by s*|x_j|, asserted without a box and for '
        's >= 1e-12) rests on the quantifier of the property ("relative steps None or given") and on the '
        'docstring, which states the default steps as multiples of x',
    )
    constants = {'FLOOR_eps_multiple': FLOOR, 'AFFINE_CS_eps_multiple': AFFINE_CS, 'C_R': C_R}
    examples = {'quick': 500, 'thorough': 10000}

    def strategy(self, tier):
        return c19_case()

    def check(self, case, ctx):
        import numdifftools.nd_scipy as nds
        prog, x, api, method = case['prog'], case['x'], case['api'], case['method']
        n = prog['n']
        try:
            an = mv.MVAnalysis(prog, x)
        except mv.MVDomainError:
            ctx.skip('point outside the certified domain of a ridge factor')
        xa = np.array(x, dtype=float)
        if case['xform'] == 'list':
            x_in = [float(v) for v in x]
        elif case['xform'] == 'grid':
            x_in = xa.reshape(case['grid'])
        elif case['xform'] == 'gridF':              # same logical array, Fortran memory order
            x_in = np.asfortranarray(xa.reshape(case['grid']))
        else:
            x_in = xa
        # step: keep 2 * width * h_j inside the certified reach of coordinate j
        width = 2.0 if method == 'central' else 1.0
        step = case['step']
        hm = model_steps(method, step, xa)
        lim = np.array([an.reach_limit((j,)) for j in range(n)])
        over = float(np.max(2.0 * width * hm / lim))
        if over > 1.0:
            if step is None:
                ctx.skip('default scipy step leaves the certified disc')
            step = step / over * 10.0 ** (-case['u'])
            ctx.count('relative step scaled into the certified disc')
        if an.max_majorant(2.0 * width * float(np.max(model_steps(method, step, xa)))) > OVERFLOW:
            ctx.skip('function values exceed 1e150 on the sampled region (overflow)')
        bounds = case['bounds']
        kw = {}
        lo = hi = None
        if bounds is not None:
            lo = np.array([-np.inf if v is None else v for v in bounds['lo']], dtype=float)
            hi = np.array([np.inf if v is None else v for v in bounds['hi']], dtype=float)
            kw['bounds'] = (lo, hi)
        args, kwds = tuple(case['args']), dict(case['kwds'])
        rec = []
        f = mv.MVFunction(prog, record=rec)
        cls = nds.Jacobian if api == 'jacobian' else nds.Gradient
        what = 'nd_scipy.%s(method=%s, step=%r%s)' % (cls.__name__, method, step, ', bounds' if bounds else '')
        ctx.count('api=%s' % api)
        ctx.count('method=%s' % method)
        ctx.count('kind=%s' % case['kind'])
        ctx.count('container=%s' % prog['container'])
        ctx.count('step=%s' % ('default' if case['step'] is None else 'relative'))
        ctx.count('bounds=%s' % ('none' if bounds is None else 'box'))
        ctx.count('xform=%s' % case['xform'])
        ctx.count('nargs=%d nkwds=%d' % (len(args), len(kwds)))
        with warnings.catch_warnings():
            warnings.simplefilter('ignore')
            with np.errstate(all='ignore'):
                with ctx.lib('no-exception', what):
                    lib = cls(f, step=step, method=method, **kw)(x_in, *args, **kwds)
        lib = np.asarray(lib)
        m = len(prog['comps'])
        # ---- reuse: a second call of the same object at the same x with other extra arguments ------
        # F(x, *a, **k) = f(x) * (1 + tanh(s)/4) + s with s = sum of the extra arguments, so anything
        # remembered from the first call (f(x), differences) shows in the second result; the reference
        # is the same call on a fresh object, compared bit for bit (both are deterministic).
        f_plain = mv.MVFunction(prog)

        def f_args(xx, *a, **k):
            s_ = float(sum(a)) + float(sum(k.values()))
            return f_plain(xx) * (1.0 + 0.25 * math.tanh(s_)) + s_
        args2 = args + (0.75,)
        with warnings.catch_warnings():
            warnings.simplefilter('ignore')
            with np.errstate(all='ignore'):
                with ctx.lib('no-exception', what + ' called twice'):
                    obj = cls(f_args, step=step, method=method, **kw)
                    first = np.asarray(obj(x_in, *args, **kwds))
                    again = np.asarray(obj(x_in, *args2, **kwds))
                    fresh = np.asarray(cls(f_args, step=step, method=method, **kw)(x_in, *args2, **kwds))
        if again.shape != fresh.shape or not np.array_equal(again, fresh, equal_nan=True):
            raise Violation('reuse', '%s: the second call of one object at the same x with extra arguments %r '
                            '(after %r) returns %r, a fresh object returns %r'
                            % (what, args2, args, again, fresh), method=method)
        ctx.count('reuse clause evaluated')
        # ---- shape ------------------------------------------------------------------------
        if api == 'gradient':
            want = () if n == 1 else (n,)
        elif prog['container'] == '0d':
            want = (n,)
        else:
            want = (m, n)
        if lib.shape != want:
            raise Violation('shape', '%s returned shape %s for a %s output (m=%d) of n=%d variables, expected %s'
                            % (what, lib.shape, prog['container'], m, n, want), shape=list(lib.shape))
        if not np.all(np.isfinite(lib)):
            raise Violation('finite', '%s contains non-finite entries' % what, lib=lib)
        if np.iscomplexobj(lib):
            raise Violation('real', '%s is complex for a real function' % what)
        # ---- recorded calls -----------------------------------------------------------------
        if not rec:
            raise Violation('forwarded', 'f was never called')
        pts = []
        for xc, a, k in rec:
            if tuple(a) != args or dict(k) != kwds:
                raise Violation('forwarded', 'f called with args=%r kwds=%r instead of args=%r kwds=%r'
                                % (a, k, args, kwds))
            if xc is None or np.size(xc) != n:
                raise Violation('forwarded', 'f called with an x of %r entries' % (None if xc is None else np.size(xc)))
            pts.append(np.ravel(xc))
        outward = False
        if bounds is not None:
            for p in pts:
                re = np.real(p)
                if np.any(re < lo) or np.any(re > hi):
                    j = int(np.argmax((re < lo) | (re > hi)))
                    raise Violation('bounds', 'f evaluated at x[%d]=%r outside [%r, %r] (x=%r)'
                                    % (j, re[j], lo[j], hi[j], x[j]), j=j, pos=bounds['pos'][j])
            for j in range(n):
                room_hi, room_lo = hi[j] - xa[j], xa[j] - lo[j]
                if method == 'forward':
                    if (xa[j] >= 0 and room_hi < hm[j]) or (xa[j] < 0 and room_lo < hm[j]):
                        outward = True
                elif method == 'central' and (room_hi < hm[j] or room_lo < hm[j]):
                    outward = True
            if outward:
                ctx.count('box forces scipy to flip or shrink a step')
        # ---- entries --------------------------------------------------------------------------
        Jex = an.jacobian()                           # (elements, n)
        canon = lib.reshape(Jex.shape)
        affine = mv.is_affine(prog)
        sensitive = False
        for j in range(n):
            offs = []
            for p in pts:
                d = p - xa
                nz = np.flatnonzero(d != 0)
                if nz.size == 1 and nz[0] == j:
                    offs.append(d[j])
                elif nz.size > 1:
                    raise Violation('forwarded', 'an evaluation point differs from x in %d coordinates' % nz.size)
            if not offs:
                raise Violation('forwarded', 'no evaluation point moves coordinate %d' % j)
            mags = [abs(o) for o in offs]
            h, reach = min(mags), max(mags)
            # a given step is relative (rel_step of approx_derivative): without a box the offsets are
            # +-step*|x_j| up to the rounding of (x + h) - x
            if step is not None and bounds is None and step >= 1e-12:
                ctx.count('relative-step clause asserted')
                if abs(h - step * abs(xa[j])) > 1e-3 * step * abs(xa[j]):
                    raise Violation('relative-step', 'step=%r at x[%d]=%r: smallest offset %.6g, expected '
                                    'step*|x| = %.6g' % (step, j, xa[j], h, step * abs(xa[j])), j=j)
            is_cs = any(np.iscomplex(o) for o in offs)
            if (method == 'complex') != is_cs:
                raise Violation('method', 'method=%s but the offsets of coordinate %d are %s' % (
                    method, j, 'imaginary' if is_cs else 'real'))
            limit = min(an.reach_limit((j,)), mv.R_CAP)
            if 2.0 * reach > limit:
                ctx.count('observed offsets leave the certified disc (entry not asserted)')
                continue
            p_ord = 1 if method == 'forward' else 2
            radii = mv._radii(2.0 * reach, limit)
            for e in range(Jex.shape[0]):
                err = abs(canon[e, j] - Jex[e, j])
                if affine and method == 'complex':
                    unit = EPS * an.abs_affine(e, j)
                    ratio = err / unit if unit > 0 else (0.0 if err == 0 else math.inf)
                    ctx.track('affine_cs err/(eps|A|)', ratio, dict(x=x, e=e, j=j, lib=canon[e, j], exact=Jex[e, j]))
                    if ratio > AFFINE_CS and not CALIBRATE:
                        raise Violation('affine-cs', 'J[%d,%d]=%r, A=%r: |err|=%.3g > 16 eps |A| for an affine map with '
                                        'the complex method' % (e, j, canon[e, j], Jex[e, j], err), e=e, j=j)
                    if AFFINE_CS * unit <= abs(Jex[e, j]) / 2:
                        sensitive = True
                    continue
                M = an.majorant(e, (j,), radii)
                with np.errstate(all='ignore'):
                    Tv = M * reach ** p_ord / (radii ** (p_ord + 1) * (1.0 - reach / radii))
                    T = 0.0 if affine else float(np.min(Tv[np.isfinite(Tv)])) if np.any(np.isfinite(Tv)) else math.inf
                    if is_cs:
                        Rv = M / (radii - h)
                        R = EPS * (float(np.min(Rv[np.isfinite(Rv)])) + (n + 2) * an.cond(e, (j,)))
                    else:
                        M0 = float(an.majorant(e, (j,), [reach])[0])
                        R = EPS * (M0 / h + (n + 2) * (an.noise(e) / h + an.cond(e, (j,))))
                floor = FLOOR * EPS * abs(Jex[e, j])
                if not (math.isfinite(T) and math.isfinite(R)):
                    ctx.count('scale unavailable')
                    continue
                excess = max(err - T - floor, 0.0)
                ratio = excess / R if R > 0 else (0.0 if excess == 0 else math.inf)
                ctx.track('(err-T-floor)/R|%s' % method, ratio,
                          dict(prog=mv.describe(prog), x=x, e=e, j=j, lib=canon[e, j], exact=Jex[e, j], T=T, R=R,
                               h=h, reach=reach, step=step))
                if ratio > C_R and not CALIBRATE:
                    raise Violation('accuracy', '%s: J[%d,%d]=%r exact %r: |err|=%.3g > T(%.3g) + %g*R(%.3g) + '
                                    'floor(%.3g), h=%.3g' % (what, e, j, canon[e, j], Jex[e, j], err, T, C_R, R,
                                                             floor, h), e=e, j=j, ratio=ratio)
                if T + C_R * R + floor <= abs(Jex[e, j]) / 2:
                    sensitive = True
        # ---- Gradient equals the Jacobian row --------------------------------------------------
        if api == 'gradient':
            rec2 = []
            f2 = mv.MVFunction(prog, record=rec2)
            with warnings.catch_warnings():
                warnings.simplefilter('ignore')
                with np.errstate(all='ignore'):
                    with ctx.lib('no-exception', 'nd_scipy.Jacobian of the scalar function'):
                        jac = np.asarray(nds.Jacobian(f2, step=step, method=method, **kw)(xa, *args, **kwds))
            if not np.array_equal(np.squeeze(jac), lib):
                raise Violation('grad-row', 'Gradient %r differs from the Jacobian row %r' % (lib, jac))
        if sensitive and (Jex.shape[0] != n or outward or api == 'gradient'):
            ctx.nontriv(dict(p=prog, x=x, a=api, m=method, s=case['step'], b=bounds))
            ctx.count('nontrivial|%s|%s' % (api, method))
            if outward:
                ctx.count('nontrivial with an active face|%s' % method)
        ctx.sample(dict(prog=mv.describe(prog), x=x, api=api, method=method, step=step, bounds=bounds,
                        args=list(args), kwds=kwds, lib=lib, exact=Jex, ncalls=len(rec)))

    def finding_key(self, case, v):
        if case is None:
            return {'clause': v.clause}
        return {'clause': v.clause, 'api': case['api'], 'method': case['method'], 'kind': case['kind'],
                'container': case['prog']['container'], 'm': len(case['prog']['comps']), 'n': case['prog']['n'],
                'bounds': case['bounds'] is not None, 'step_given': case['step'] is not None,
                'exception': v.details.get('exception'), 'where': v.details.get('where')}


PROP = C19()
