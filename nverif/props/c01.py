"""C01 - Derivative returns the true n-th derivative within the accuracy envelope.

Oracle: 60-digit truncated Taylor arithmetic (jets) on the same expression tree; analyticity of
the tree on every sampled disc is certified by complex ball arithmetic *before* anything is
asserted, and the step configuration is constructed to stay inside half the certified radius.
Envelope: |lib - exact| <= tol[method, n, cfg] * U + 64 eps (|exact| + sens_n).
"""
import math
import os

import numpy as np

from nverif.engine import Prop, Violation
from nverif.oracle import exprs
from nverif.props import deriv_common as dc

CALIBRATE = bool(os.environ.get('NVERIF_CALIBRATE'))
FLOOR = 64.0
ILL_CONDITIONED = 1e4
DYNAMIC_RANGE = 1e30
TOL_USER = 1e3
SINGULAR_RULE = 1e12
ASYMPTOTIC = 1e-2
C_X = 1e4


def tol_for(table, method, n, bucket):
    return table.get('%s|%d|%s' % (method, n, bucket))


class C01(Prop):
    id = 'C01'
    title = 'Derivative returns the true n-th derivative within the accuracy envelope'
    rule = ('Hypothesis draws an expression tree over {+,-,*,/,integer and real powers, exp, log, sqrt, '
            'sin, cos, tan, sinh, cosh, tanh, arctan, arcsin, arcsinh, arctanh, expm1, log1p} (<= 12 nodes, '
            'x-free sub-trees folded), x = +-10^U(-3,2) (scalar or array of 2..6 points), method, n in '
            '0..nmax(method) (weight ~ 1/(1+n/3)), order 1..8, a step configuration (default / '
            'Min / MaxStepGenerator with drawn options / scalar / **step_options), optionally a complex-'
            'valued wrapper a*g+b or exp(i g) for the real-step methods, full_output on/off.  The certified '
            'analyticity radius rho of the tree at x is computed by ball arithmetic and the steps are '
            'scaled so that stencil-width * h_max <= rho/2.  Exact value = n! c_n from 60-digit jets.  '
            'A case is NON-TRIVIAL iff tol*S_n + floor <= |exact|/2 for at least one element, i.e. a sign '
            'error or a factor 2 would have been flagged; distinct by (tree, x, method, n, order, step).')
    assumptions = (
        'mpmath 60-digit jet arithmetic is exact to < 1e-30 relative',
        'ball arithmetic certificate is conservative (outward rounding fudge 1e-9)',
        'tolerance table tol[method, n, cfg] frozen in nverif/constants.json (k = number of derivative '
        'estimates left after the finite-difference rule); cells marked null assert only: no exception, '
        'shape, finiteness',
    )
    examples = {'quick': 500, 'thorough': 9000}
    shrink = {'quick': True, 'thorough': True}

    def __init__(self):
        try:
            self.table = dc.load_constants().get('C01_tol', {})
        except Exception:
            self.table = {}
        self.constants = {'FLOOR_eps_multiple': FLOOR, 'ILL_CONDITIONED': ILL_CONDITIONED, 'DYNAMIC_RANGE': DYNAMIC_RANGE, 'TOL_USER': TOL_USER, 'SINGULAR_RULE': SINGULAR_RULE, 'ASYMPTOTIC': ASYMPTOTIC, 'C_X': C_X, 'tol_table': 'nverif/constants.json:C01_tol'}

    def strategy(self, tier):
        return dc.derivative_case()

    def check(self, case, ctx):
        ev = dc.evaluate(case, ctx)
        method, n, order = case['method'], case['n'], case['order']
        cplx = case.get('wrap') is not None
        ctx.count('method=%s' % method)
        ctx.count('%s|n=%d' % (method, n))
        ctx.count('step=%s' % case['step']['kind'])
        ctx.count('points=%d' % len(case['x']))
        if cplx:
            ctx.count('complex-valued f')
        if ev.scale != 1.0:
            ctx.count('steps scaled into the certified disc')
        f_at_x = ev.f(ev.x_arr)
        if n == 0:
            with np.errstate(all='ignore'):
                same = np.array_equal(np.asarray(ev.val), np.asarray(f_at_x), equal_nan=True)
            if not same:
                raise Violation('n0', 'n=0 does not return f(x) exactly', lib=ev.val, fx=f_at_x)
            ctx.nontriv(dict(t=case['tree'], x=case['x'], m=method, o=order))
            ctx.sample(dc.summary(case, ev))
            return
        bucket = dc.cfgclass(case)
        # programs whose *evaluation* is ill-conditioned (first-order sensitivity of the value to
        # relative errors of its intermediates above 1e4 * |f(x)|-scale, e.g. exp(1j*x**-2.05) at
        # x = 1e-3): every derivative estimate is dominated by amplified rounding noise and the
        # library's choice among them is arbitrary; they form their own (weak) class
        for a in ev.analyses:
            sens = a.sensitivity(n)
            if sens is not None:
                scale0 = max(abs(complex(a.jets[-1].c[0])), 1e-300)
                if sens[0] > ILL_CONDITIONED * scale0:
                    bucket += '+illcond'
                    break
        # extreme dynamic range over the sampled discs (e.g. x**216 near 0.014 with steps up to 2):
        # almost every window is rounding garbage of astronomically different size and the exact
        # (zero) estimates of the small windows are rejected as outliers; own (weak) class
        if '+' not in bucket:
            for j2, a in enumerate(ev.analyses):
                if ev.hmax[j2] and ev.hmin[j2]:
                    w_ = dc.stencil_width(method, n)
                    lb = a.log_bound(0, [w_ * ev.hmin[j2], w_ * ev.hmax[j2]], node=-1)[0]
                    if np.isfinite(lb[1]) and lb[1] - max(lb[0], -700.0) > math.log(DYNAMIC_RANGE):
                        bucket += '+range'
                        break
        # numerically singular rule (moment matrix condition above 1e12, e.g. forward n=10 with a
        # user step ratio of 4): C06 excludes these systems, the pseudo-inverse truncates them and the
        # result can be 100 % off; own (weak) class
        if bucket == 'user' and method != 'multicomplex':     # (the default cells are calibrated including these)
            try:
                rule_obj = ev.d.fd_rule
                order_, mo = rule_obj.n - 1, rule_obj.method_order
                parity = rule_obj._parity(method, order_, mo)
                nterms = (order_ + mo) // rule_obj.richardson_step
                if nterms > 1:
                    kappa = np.linalg.cond(rule_obj._fd_matrix(float(abs(ev.ratio)), parity, nterms))
                    if not (kappa <= SINGULAR_RULE):
                        bucket += '+singular'
            except Exception:
                pass
        ctx.count('k_est=%s' % dc.kbucket(ev.k_est))
        ctx.count('cfg=%s' % bucket)
        # library-chosen steps: calibrated table on the best-window unit; user-supplied steps: a fixed
        # multiple of the worst-window unit (DESIGN 10.1)
        tol = TOL_USER if bucket == 'user' else tol_for(self.table, method, n, bucket)
        ctx.count('cell|%s|%d|%s' % (method, n, bucket))
        nontrivial = False
        for j, xv in enumerate(case['x']):
            lib = complex(ev.vals[j]) if cplx else ev.vals[j]
            exact = ev.exact_f[j]
            U, S1 = (ev.Umax[j] if bucket.startswith('user') else ev.U[j]), ev.S1[j]
            if not np.isfinite(lib):
                raise Violation('finite', 'result is %r at x=%r (every sample point is inside the certified '
                                'domain)' % (lib, xv), method=method, n=n, order=order)
            if not cplx and np.iscomplexobj(ev.vals) and ev.vals[j].imag != 0:
                raise Violation('real', 'complex result for a real function', lib=ev.vals[j])
            if U is None or S1 is None or not math.isfinite(S1):
                ctx.count('scale unavailable (overflow)')
                continue
            U = U[0]
            err = abs(lib - exact)
            sens = ev.analyses[j].sensitivity(n)
            floor = FLOOR * dc.EPS * (abs(exact) + (sens[1] if sens else abs(xv) * S1))
            excess = max(err - floor, 0.0)
            ratio = excess / U if U > 0 else (0.0 if excess == 0 else math.inf)
            if CALIBRATE and method == 'multicomplex' and self._known_class(case):
                continue          # known finding classes do not enter the calibration maxima
            ctx.track('err/U|%s|%d|%s' % (method, n, bucket), ratio,
                      dict(f=exprs.show(case['tree']), x=xv, order=order, step=case['step'], lib=lib,
                           exact=exact, U=U, wrap=case.get('wrap')))
            if CALIBRATE and method == 'multicomplex':
                tag = 'big' if ratio > 10 else 'ok'
                for o in sorted(exprs.ops(case['tree'])):
                    ctx.count('mc%d-%s|%s|%s' % (n, tag, o, case['step']['kind']))
            if CALIBRATE and ratio > 0:
                ctx.record('log10(err/U)|%s|%d' % (method, n), math.log10(ratio) if ratio < 1e300 else 300.0)
            # user sequences all of whose windows are benign (worst-window unit below 1 % of the size
            # of f^(n) on the certified disc: asymptotic truncation and harmless rounding everywhere) must also deliver the
            # documented extrapolated order p + s*t (clause 'extrapolated-order'): a mis-paired
            # Richardson stage leaves a lower power of h in the result, which the worst-window bound
            # cannot see
            asym = False
            if bucket == 'user' and ev.Ux[j] is not None and ev.Umax[j] is not None:
                rho2 = ev.analyses[j].rho_cert / 2.0
                s_cert = ev.analyses[j].scale(n, rho2, rho2)      # size of f^(n) on the certified disc
                # ... and rounding must be negligible in every window (below the extrapolated unit):
                # among rounding-dominated estimates the library's choice is not the best window
                asym = bool(s_cert and math.isfinite(s_cert) and ev.Umax[j][0] <= ASYMPTOTIC * s_cert
                            and ev.Rmax[j] is not None and ev.Rmax[j] <= ev.Ux[j][0])
            if asym:
                rx = excess / ev.Ux[j][0] if ev.Ux[j][0] > 0 else (0.0 if excess == 0 else math.inf)
                ctx.track('err/U_x|asymptotic user|%s' % method, rx,
                          dict(f=exprs.show(case['tree']), x=xv, n=n, order=order, step=case['step'], lib=lib,
                               exact=exact, Ux=ev.Ux[j][0]))
                ctx.count('asymptotic user sequence|%s' % method)
                if rx > C_X and not CALIBRATE:
                    raise Violation('extrapolated-order', '%s n=%d order=%d: lib=%r exact=%r |err|=%.3g > %g * U_x(%.3g) '
                                    '+ floor(%.3g) for an asymptotic user step sequence (k_est=%d) at x=%r, f=%s'
                                    % (method, n, order, lib, exact, err, C_X, ev.Ux[j][0], floor, ev.k_est, xv,
                                       exprs.show(case['tree'])), method=method, n=n, order=order, ratio=rx,
                                    bucket=bucket)
            if tol is None or CALIBRATE:
                continue
            if ratio > tol:
                raise Violation('envelope', '%s n=%d order=%d: lib=%r exact=%r |err|=%.3g > tol(%g)*U(%.3g) '
                                '+ floor(%.3g) at x=%r, f=%s' % (method, n, order, lib, exact, err, tol, U,
                                                                 floor, xv, exprs.show(case['tree'])),
                                method=method, n=n, order=order, ratio=ratio, bucket=bucket)
            if tol * U + floor <= abs(exact) / 2:
                nontrivial = True
        if tol is None:
            ctx.count('weak cell (no envelope): %s|%d|%s' % (method, n, bucket))
        if nontrivial:
            ctx.nontriv(dict(t=case['tree'], x=case['x'], m=method, n=n, o=order, s=case['step']))
            ctx.count('nontrivial|%s|n=%d' % (method, n))
        ctx.sample(dc.summary(case, ev))

    def _known_class(self, case):
        k = self.finding_key(case, Violation('envelope', ''))
        return (k['pow_base_below_1e-15'] or k['tanh_arg_over_300'] or k['inverse_function_arg_below_1e-2']
                or (case['n'] == 2 and set(k['ops']) & {'arctan', 'arcsin', 'arccos'}))

    def finding_key(self, case, v):
        big = max(exprs.max_abs_argument(case['tree'], float(xv), ('tanh',)) for xv in case['x'])
        tiny = min(exprs.min_abs_pow_base(case['tree'], float(xv)) for xv in case['x'])
        huge = max(exprs.max_abs_pow_base(case['tree'], float(xv)) for xv in case['x'])
        inv = min(exprs.min_abs_argument(case['tree'], float(xv), ('arcsinh', 'arctanh', 'arctan', 'arcsin'))
                  for xv in case['x'])
        return {'tanh_arg_over_300': bool(big > 300), 'pow_base_below_1e-15': bool(tiny < 1e-15), 'pow_base_above_1e150': bool(huge > 1e150), 'inverse_function_arg_below_1e-2': bool(inv < 1e-2),
                'clause': v.clause, 'method': case['method'], 'n': case['n'],
                'ops': sorted(exprs.ops(case['tree'])), 'complex_f': case.get('wrap') is not None,
                'step_kind': case['step']['kind'], 'exception': v.details.get('exception'),
                'where': v.details.get('where')}


PROP = C01()
