"""C12 - Bicomplex arithmetic and elementary functions are the holomorphic extension.

Oracle (nverif/oracle/idem.py): F(z1 + j z2) = e1 f(z1 - i z2) + e2 f(z1 + i z2) with f evaluated by
mpmath (60 digits, principal branches) on the two idempotent components; exact f'(x), f''(x) from
jets for the "consequently" clause.  The tolerance is TOL * eps * E where E is the first-order
rounding-error bound the oracle propagates through the program (|F| + |u f'(u)| per named function,
see idem.py), i.e. an explicit conditioning factor.
"""
import math
import os
import warnings

import mpmath as mp
import numpy as np
from hypothesis import strategies as st

from nverif.engine import Prop, Violation
from nverif.oracle import exprs, idem
from nverif.oracle.jets import JetDomainError

EPS = 2.0 ** -52
FLOOR = 1e-3              # perturbations are relative to max(|x|, FLOOR)
TOL_VALUE = 40.0          # |lib - oracle|_max <= TOL_VALUE * eps * E; worst measured 2.4 (8 quick seeds), 3.5 (thorough)
UNDERFLOW = 1e-290        # absolute floor of every tolerance (results at the underflow threshold)
C_TRUNC = 1.0             # truncation constant of the derivative clause (rigorous: 2/3 and 1/3)
K_DERIV = 24              # jet length used for S_3, S_4 (Cauchy tail added by exprs.Analysis)
NONTRIV_REL = 1e-6
ALL_UNARY = list(exprs.UNARY_C01) + list(exprs.UNARY_C12_EXTRA)
NP_NAMES = [n for n in idem.NAMES26 if hasattr(np, n)]
SKIP_KNOWN = os.environ.get('C12_SKIP_KNOWN', '')     # development aid only (explore behind a known defect)

assert sorted(ALL_UNARY) == sorted(idem.NAMES26)


# --------------------------------------------------------------------------------------
# generators
# --------------------------------------------------------------------------------------

def _logu(draw, lo, hi):
    return 10.0 ** draw(st.floats(lo, hi))


def _sign(draw):
    return draw(st.sampled_from([-1.0, 1.0]))


L95 = math.log10(0.95)


def draw_x(draw, name):
    """Base point in the interior of the real domain of the named function (5 % margin)."""
    if name in ('log', 'log2', 'log10', 'sqrt'):
        return _logu(draw, -3, 2)
    if name in ('arcsin', 'arccos', 'arctanh'):
        return _sign(draw) * _logu(draw, -3, L95)
    if name == 'arccosh':
        return 1.0 + _logu(draw, math.log10(0.05), 2)
    if name == 'log1p':
        return _logu(draw, -3, 2) if draw(st.booleans()) else -_logu(draw, -3, L95)
    if name in ('tan', 'sec', 'cot', 'csc'):
        if draw(st.booleans()):
            return _sign(draw) * _logu(draw, -3, 0)
        k = draw(st.integers(-30, 30))
        t = draw(st.floats(0.05, 0.95))
        return (k - 0.5 + t) * math.pi if name in ('tan', 'sec') else (k + t) * math.pi
    if name in ('tanh', 'coth') and draw(st.integers(0, 9)) == 0:
        return _sign(draw) * draw(st.floats(300.0, 440.0))
    if name in ('coth', 'csch'):
        return _sign(draw) * _logu(draw, -3, 2)
    if draw(st.integers(0, 24)) == 0:
        return 0.0
    return _sign(draw) * _logu(draw, -3, 2)


def draw_generic_x(draw):
    return _sign(draw) * _logu(draw, -3, 2)


def perturbation(draw, x, limit, z2zero=False, lo=-8.0):
    """(a, b, c) of relative size 10^U(lo,-1), lo = -8 (relative to max(|x|, FLOOR)), random signs,
    scaled down so that |a| + |b| + |c| <= limit."""
    s = max(abs(x), FLOOR)
    p = [_sign(draw) * s * _logu(draw, lo, -1) for _ in range(3)]
    if z2zero:
        p[1] = p[2] = 0.0
        if x != 0 and draw(st.integers(0, 3)) == 0:
            p[0] = 0.0
    tot = sum(abs(v) for v in p)
    if tot > limit:
        f = 0.999 * limit / tot
        p = [v * f for v in p]
    return p


def np_tree(e):
    """The program the numpy back end really evaluates: np has no cot/sec/csc/coth/sech/csch, a user
    writes 1.0 / np.tan(u) etc. (exprs._np_unary), so the certificate must be that of the quotient
    (1/tan(u) has a singular intermediate where cos(u) = 0, cos(u)/sin(u) has not)."""
    t = e[0]
    if t in ('x', 'c'):
        return list(e)
    if t == 'u':
        sub = np_tree(e[2])
        if e[1] in idem.RECIP:
            return ['/', ['c', 1.0], ['u', idem.RECIP[e[1]], sub]]
        return ['u', e[1], sub]
    if t in ('powi', 'powr'):
        return [t, np_tree(e[1]), e[2]]
    return [t, np_tree(e[1]), np_tree(e[2])]


def rho_of(tree, x):
    return exprs.Analysis(tree, x, K=4).rho_cert


def points(draw, tree, xdraw, z2zero=False, lo=-8.0):
    npts = draw(st.sampled_from([1, 1, 1, 2, 3]))
    pts = []
    for _ in range(npts):
        x = None
        for _ in range(8):
            x = xdraw()
            rho = rho_of(tree, x)
            if rho > 1e-7 * max(abs(x), FLOOR):
                break
        pts.append([x] + perturbation(draw, x, rho / 4.0, z2zero, lo))
    scalar = npts == 1 and draw(st.booleans())
    return pts, scalar


@st.composite
def unary_case(draw):
    name = draw(st.sampled_from(idem.NAMES26))
    via = draw(st.sampled_from(['method', 'numpy'])) if name in NP_NAMES else 'method'
    z2zero = draw(st.integers(0, 7)) == 0
    tree = ['u', name, ['x']]
    if name == 'arctan' and not z2zero and draw(st.integers(0, 2)) == 0:
        # |imag2| >= 1: the only place inside a real domain where the class's logarithm meets a
        # non-positive real part (1 - j z and 1 + j z), i.e. where the pi-correction of _arg_c is live
        pts, scalar = points(draw, tree, lambda: _sign(draw) * _logu(draw, 1.3, 2), False, lo=-2.0)
    else:
        pts, scalar = points(draw, tree, lambda: draw_x(draw, name), z2zero)
    return dict(kind='unary', name=name, via=via, tree=tree, pts=pts, scalar=scalar, z2zero=z2zero)


@st.composite
def pow_case(draw):
    if draw(st.integers(0, 2)) > 0:
        p = draw(st.sampled_from([-6, -4, -3, -2, -1, -1, 0, 1, 2, 2, 3, 3, 4, 5, 6, 7, 8]))
        tree = ['powi', ['x'], p]

        def xdraw():
            if p > 0 and draw(st.integers(0, 19)) == 0:
                return 0.0
            return draw_generic_x(draw)
    else:
        p = round(draw(st.floats(-2.5, 3.5)), 2)
        if p == int(p):
            p += 0.5
        tree = ['powr', ['x'], p]

        def xdraw():
            return _logu(draw, -3, 2)
    z2zero = draw(st.integers(0, 9)) == 0
    pts, scalar = points(draw, tree, xdraw, z2zero)
    return dict(kind='pow', name=tree[0], tree=tree, pts=pts, scalar=scalar, z2zero=z2zero)


@st.composite
def binop_case(draw):
    op = draw(st.sampled_from(['+', '-', '*', '/', '/', '**', '**']))
    order = draw(st.sampled_from(['zw', 'wz']))
    ptype = draw(st.sampled_from(['int', 'float', 'npfloat', 'complex', 'npcomplex', 'bicomplex',
                                  'bicomplex']))
    z_is_base = op == '**' and order == 'zw'
    w_is_base = op == '**' and order == 'wz'
    z_inverted = op == '/' and order == 'wz'
    w_inverted = op == '/' and order == 'zw'
    # partner
    if ptype == 'int':
        y = float(draw(st.integers(1, 9)) * (1 if w_is_base else draw(st.sampled_from([-1, 1]))))
        w = [y, 0.0, 0.0, 0.0]
    else:
        mag = _logu(draw, -2, 1)
        y = mag if w_is_base else _sign(draw) * mag
        w = [y, 0.0, 0.0, 0.0]
        if ptype in ('complex', 'npcomplex'):
            w[1] = _sign(draw) * mag * _logu(draw, -2, 0.3)
        elif ptype == 'bicomplex':
            lim = abs(y) / 4.0 if (w_is_base or w_inverted) else math.inf
            w[1:] = perturbation(draw, y, lim)
    # argument
    int_exponent = z_is_base and ptype == 'int'

    def xdraw():
        if z_is_base and not int_exponent:
            return _logu(draw, -3, 2)
        if not (z_is_base or z_inverted) and draw(st.integers(0, 24)) == 0:
            return 0.0
        if w_is_base or op == '**':
            return _sign(draw) * _logu(draw, -3, 1)      # exponent / base of moderate size
        return draw_generic_x(draw)
    npts = draw(st.sampled_from([1, 1, 1, 2, 3]))
    pts = []
    for _ in range(npts):
        x = xdraw()
        lim = abs(x) / 4.0 if (z_is_base or z_inverted) else math.inf
        pts.append([x] + perturbation(draw, x, lim, draw(st.integers(0, 9)) == 0))
    scalar = npts == 1 and draw(st.booleans())
    return dict(kind='binop', op=op, order=order, ptype=ptype, w=w, pts=pts, scalar=scalar,
                name={'+': 'add', '-': 'sub', '*': 'mul', '/': 'div', '**': 'pow'}[op]
                + ('' if order == 'zw' else '_r') + ':' + ptype)


TREES = exprs.expr_trees(unary=tuple(ALL_UNARY), max_leaves=5, max_size=10)


@st.composite
def tree_case(draw):
    tree = np_tree(draw(TREES))
    pts, scalar = points(draw, tree, lambda: draw_generic_x(draw), draw(st.integers(0, 11)) == 0)
    return dict(kind='tree', name='tree', tree=tree, pts=pts, scalar=scalar)


@st.composite
def deriv_case(draw):
    if draw(st.booleans()):
        name = draw(st.sampled_from(idem.NAMES26))
        tree = ['u', name, ['x']]
        x = draw_x(draw, name)
        via = draw(st.sampled_from(['method', 'numpy'])) if name in NP_NAMES else 'method'
    else:
        tree = np_tree(draw(TREES))
        name, via = 'tree', 'numpy'
        x = None
        for _ in range(6):
            x = draw_generic_x(draw)
            if rho_of(tree, x) > 1e-7 * abs(x):
                break
    form = draw(st.sampled_from(['jh', 'jh', 'z2zero']))
    rho = rho_of(tree, x)
    h = _logu(draw, -4, -1) * max(1.0, abs(x))
    reach = (2.0 if form == 'jh' else 1.0) * h
    if reach > rho / 2.0:
        h *= rho / (2.0 * reach) * 10.0 ** (-draw(st.floats(0.0, 0.5)))
    return dict(kind='deriv', name=name, via=via, tree=tree, x=x, h=h, form=form)


KIND_WEIGHTS = ['unary'] * 7 + ['pow'] * 2 + ['binop'] * 4 + ['tree'] * 5 + ['deriv'] * 4


@st.composite
def any_case(draw):
    kind = draw(st.sampled_from(KIND_WEIGHTS))
    return draw({'unary': unary_case, 'pow': pow_case, 'binop': binop_case, 'tree': tree_case,
                 'deriv': deriv_case}[kind]())


# --------------------------------------------------------------------------------------
# the check
# --------------------------------------------------------------------------------------

def _partner(ptype, w, Bicomplex):
    y = w[0]
    if ptype == 'int':
        return int(y)
    if ptype == 'float':
        return float(y)
    if ptype == 'npfloat':
        return np.float64(y)
    if ptype == 'complex':
        return complex(y, w[1])
    if ptype == 'npcomplex':
        return np.complex128(complex(y, w[1]))
    return Bicomplex(complex(y, w[1]), complex(w[2], w[3]))


def _apply(op, a, b):
    if op == '+':
        return a + b
    if op == '-':
        return a - b
    if op == '*':
        return a * b
    if op == '/':
        return a / b
    return a ** b


def _components(r):
    z1 = np.atleast_1d(np.asarray(r.z1)).ravel()
    z2 = np.atleast_1d(np.asarray(r.z2)).ravel()
    return np.stack([z1.real, z1.imag, z2.real, z2.imag], axis=1)      # points x 4


class C12(Prop):
    id = 'C12'
    title = 'Bicomplex arithmetic and elementary functions implement the holomorphic extension'
    rule = ('Kinds: unary (each of the 26 named functions, called as method or numpy ufunc; base point in '
            'the interior of the real domain with 5 % margin, tan/cot/sec/csc on 61 branches, tanh/coth also '
            'at |x| in [300, 440], arctan also at |x| in [20, 100] with perturbations 10^U(-2,-1)|x| so that '
            '|imag2| >= 1), pow (z**p, integer p in -6..8 at positive, negative and zero x; real p at '
            'x > 0), binop (+ - * / ** in both operand orders with int / float / np.float64 / complex / '
            'np.complex128 / Bicomplex partners), tree (random programs over all of these, numpy back end), '
            'deriv (z = x + ih + jh and x + ih, h = 10^U(-4,-1) max(1,|x|)). Argument z1 = x + i a, z2 = b + i c '
            'with |a|,|b|,|c| = 10^U(-8,-1) max(|x|, 1e-3), random signs, scaled so that |a|+|b|+|c| <= '
            'rho_cert/4 (Ball certificate of the program at x); 0-d scalars and arrays of 1-3 points (array '
            'result == the results of its elements passed as length-1 arrays, bitwise). Plus a fixed grid of '
            '432 expm1 / log1p cases. Non-trivial = all three of |a|,|b|,|c| >= 1e-6 max(|x|, 1e-3) '
            '(for deriv: tolerance <= 10 % of |f\'| resp. |f\'\'|); distinct by (function, argument).')
    assumptions = (
        'mpmath at 60 digits evaluates the principal branch of every named function on complex arguments; '
        'value cross-checked against the jet recurrences to 1e-40 on every call',
        'exprs.Analysis Ball certificate: the program is analytic (principal branches, no cut touched) on '
        '|z - x| <= rho_cert; both idempotent components lie within rho_cert/4 of x',
        'tolerance TOL_VALUE * eps * E with E the first-order rounding bound of nverif/oracle/idem.py '
        '(|F| + |u f\'(u)| per named function, +1 for the six inverse functions formed as log of an O(1) '
        'quantity, products / conjugate-over-modulus inverse for integer powers and division, exp(p log u) for '
        'other powers, second-order term in products); TOL_VALUE >= 10x the worst ratio measured over 8 quick '
        'seeds and 2 thorough seeds (3.0)',
        'array results are compared bitwise with length-1 array results, not with 0-d results: numpy rounds '
        'the product of two np.complex128 scalars differently from the same product inside an array (pure '
        'numpy effect, 8730 of 20000 random products differ in the last bit)',
        'every tolerance has the absolute floor 1e-290 (results at the underflow threshold are not judged)',
        'derivative clause: |imag1/h - f\'| <= C h^2 S_3 + TOL eps E/h, |imag12/h^2 - f\'\'| <= C h^2 S_4 + '
        'TOL eps E/h^2; C = 1 is rigorous (2/3 resp. 1/3 from the Taylor remainder) with S_n of DESIGN 3.1 '
        'on radii [2h, rho_cert/2]',
    )
    constants = {'TOL_VALUE': TOL_VALUE, 'UNDERFLOW': UNDERFLOW, 'C_TRUNC': C_TRUNC, 'FLOOR': FLOOR, 'K_DERIV': K_DERIV,
                 'NONTRIV_REL': NONTRIV_REL, 'mp_dps': idem.DPS}
    examples = {'quick': 1500, 'thorough': 40000}

    def strategy(self, tier):
        return any_case()

    def enumerate(self, tier):
        """Dedicated deterministic sample of expm1 / log1p (the two functions repaired in /repo):
        both branches of expm1 (|z2| < 1, >= 1), log1p on both sides of 0 and down to -0.95."""
        grid = {'expm1': [-30.0, -3.0, -0.5, -1e-3, 0.0, 1e-3, 0.5, 3.0, 30.0],
                'log1p': [-0.95, -0.9, -0.7, -0.5, -1e-3, 1e-3, 0.5, 3.0, 30.0]}
        gid = 0
        for name in ('expm1', 'log1p'):
            tree = ['u', name, ['x']]
            for x in grid[name]:
                lim = rho_of(tree, x) / 4.0
                for rel in (1e-7, 1e-4, 1e-2, 1e-1):
                    for sg in ((1, 1, 1), (1, -1, 1), (-1, 1, -1)):
                        s = max(abs(x), FLOOR) * rel
                        p = [sg[0] * s, sg[1] * 0.7 * s, sg[2] * 0.4 * s]
                        tot = sum(abs(v) for v in p)
                        if tot > lim:
                            p = [v * 0.999 * lim / tot for v in p]
                        for via in ('method', 'numpy'):
                            yield dict(kind='unary', name=name, via=via, tree=tree, pts=[[x] + p],
                                       scalar=(gid % 2 == 0), z2zero=False, gid=gid)
                            gid += 1

    # ---- library side ------------------------------------------------------------
    def _libf(self, case, Bicomplex):
        kind = case['kind']
        if kind in ('unary', 'deriv') and case['tree'][0] == 'u' and case['tree'][2] == ['x'] \
                and case.get('name') != 'tree':
            name = case['name']
            if case.get('via') == 'numpy':
                return lambda z: getattr(np, name)(z)
            return lambda z: getattr(z, name)()
        if kind == 'binop':
            w = _partner(case['ptype'], case['w'], Bicomplex)
            if case['order'] == 'zw':
                return lambda z: _apply(case['op'], z, w)
            return lambda z: _apply(case['op'], w, z)
        return exprs.np_function(case['tree'])

    @staticmethod
    def _wrap(r, Bicomplex):
        if isinstance(r, Bicomplex):
            return r
        return Bicomplex.__array_wrap__(r)        # what the consumers in finite_difference.py do

    # ---- oracle side ---------------------------------------------------------------
    def _oracle(self, case, pt):
        """EV of the result at one point, and the Evaluator (flags)."""
        kind = case['kind']
        x, a, b, c = pt
        Z = idem.argument([x, a], [b, c])
        if kind == 'binop':
            E = idem.Evaluator()
            w, ptype, op, order = case['w'], case['ptype'], case['op'], case['order']
            if ptype == 'bicomplex':
                W = idem.argument([w[0], w[1]], [w[2], w[3]])
                num = W
            else:
                num = {'int': int(w[0]), 'float': float(w[0]), 'npfloat': float(w[0])}.get(
                    ptype, complex(w[0], w[1]))
                W = idem.const(num)
            if op == '+':
                return E.add(Z, W), E
            if op == '-':
                return (E.add(Z, W, -1) if order == 'zw' else E.add(W, Z, -1)), E
            if op == '*':
                return E.mul(Z, W), E
            if op == '/':
                if order == 'zw' and ptype != 'bicomplex':
                    # z * other**-1 with a plain number: no logarithm involved
                    inv = idem.const(1.0)
                    inv.a = inv.b = 1 / W.a
                    inv.e = inv.M
                    return E.mul(Z, inv), E
                return (E.div(Z, W) if order == 'zw' else E.div(W, Z)), E
            if order == 'zw':
                return E.power(Z, num), E
            if ptype == 'bicomplex':
                return E.power(W, Z), E
            return E.rpower(num, Z), E
        direct = kind in ('unary', 'deriv') and case.get('name') != 'tree'
        E = idem.Evaluator(recip_as_division=not direct)
        return E.tree(case['tree'], Z), E

    def _limit(self, case, pt):
        """Largest admissible |a|+|b|+|c| for the point (certified radius / 4)."""
        x = pt[0]
        if case['kind'] == 'binop':
            z_base = case['op'] == '**' and case['order'] == 'zw'
            z_inv = case['op'] == '/' and case['order'] == 'wz'
            return abs(x) / 4.0 if (z_base or z_inv) else math.inf
        return rho_of(case['tree'], x) / 4.0

    # ---- predicate -----------------------------------------------------------------
    def check(self, case, ctx):
        from numdifftools.multicomplex import Bicomplex
        kind = case['kind']
        if case.get('name') == 'tree':
            case = dict(case, tree=np_tree(case['tree']))
        if kind == 'deriv':
            pts = [[case['x'], case['h'], case['h'] if case['form'] == 'jh' else 0.0, 0.0]]
            scalar = True
        else:
            pts, scalar = case['pts'], case['scalar']
        name = case['name']
        fname = name.split(':')[0]
        # --- preconditions (constructed by the strategy; re-validated for shrunk / replayed cases)
        for pt in pts:
            if not all(math.isfinite(v) for v in pt):
                ctx.skip('non-finite input')
            if kind != 'deriv':
                lim = self._limit(case, pt)
                if not lim > 0.25e-7 * max(abs(pt[0]), FLOOR):
                    ctx.skip('program not certified analytic around x')
                if sum(abs(v) for v in pt[1:]) > lim * (1 + 1e-12):
                    ctx.skip('perturbation exceeds certified radius / 4')
        if kind == 'binop' and case['ptype'] == 'bicomplex':
            w = case['w']
            w_base = case['op'] == '**' and case['order'] == 'wz'
            w_inv = case['op'] == '/' and case['order'] == 'zw'
            if (w_base or w_inv) and sum(abs(v) for v in w[1:]) > abs(w[0]) / 4.0 * (1 + 1e-12):
                ctx.skip('partner perturbation exceeds |y| / 4')
        if kind == 'binop' and case['op'] == '**' and case['order'] == 'wz' and not case['w'][0] > 0:
            ctx.skip('power base must have positive real part')
        if kind == 'deriv':
            an = exprs.Analysis(case['tree'], case['x'], K=K_DERIV)
            reach = (2.0 if case['form'] == 'jh' else 1.0) * case['h']
            if not (case['h'] > 0 and reach <= an.rho_cert / 2.0 * (1 + 1e-12)):
                ctx.skip('reach exceeds certified radius / 2')
        # --- oracle
        evs, flags_neg, regimes, big, kappa = [], set(), set(), {}, 1.0
        try:
            for pt in pts:
                ev, E = self._oracle(case, pt)
                evs.append(ev)
                flags_neg |= E.neg
                regimes |= E.regimes
                kappa = max(kappa, E.kappa)
                for k, v in E.big.items():
                    big[k] = max(big.get(k, 0.0), v)
        except idem.IdemDomainError as exc:
            ctx.skip('outside the domain: %s' % str(exc)[:60])
        over300 = sorted(k for k, v in big.items() if v > 300.0)
        function = fname
        if kind != 'unary' and over300:
            function = over300[0]
        elif fname == 'tree' and 'arctan:mixed' in regimes:
            function = 'arctan'
        attrs = dict(kind=kind, function=function,
                     negative_real_part=bool(flags_neg), arg_over_300=bool(over300),
                     regimes=sorted(regimes))
        if kind == 'binop' and case['op'] == '**' and case['order'] == 'wz' and not scalar \
                and case['ptype'] in ('int', 'float', 'complex'):
            attrs['regimes'] = sorted(regimes | {'rpow:python-scalar**array'})
        if kind == 'binop' and case['op'] == '**' and scalar and (
                (case['order'] == 'zw' and case['ptype'] == 'bicomplex' and case['w'][1] == 0)
                or (case['order'] == 'wz' and case['ptype'] == 'bicomplex' and pts[0][1] == 0)):
            attrs['regimes'] = sorted(set(attrs['regimes']) | {'pow:0-d bicomplex exponent with imag1 == 0'})
        if SKIP_KNOWN and ('tanh:over300' in attrs['regimes'] or 'arctan:mixed' in attrs['regimes']
                           or any(r.endswith((':huge', ':tiny')) and not r.startswith('log1p') for r in attrs['regimes'])):
            ctx.skip('development: known defect regime skipped')
        # --- library
        libf = self._libf(case, Bicomplex)
        z1 = [complex(p[0], p[1]) for p in pts]
        z2 = [complex(p[2], p[3]) for p in pts]
        what = '%s on %s' % (name if kind != 'tree' else exprs.show(case['tree']),
                             'scalar' if scalar else 'array[%d]' % len(pts))
        try:
            with warnings.catch_warnings(), np.errstate(all='ignore'), ctx.lib('no-exception', what):
                warnings.simplefilter('ignore')
                if scalar:
                    r = self._wrap(libf(Bicomplex(z1[0], z2[0])), Bicomplex)
                else:
                    r = self._wrap(libf(Bicomplex(np.array(z1), np.array(z2))), Bicomplex)
                lib = _components(r)
                singles = None
                if len(pts) > 1:
                    # the same elements one at a time, as arrays of length 1 (numpy's 0-d scalar product is
                    # rounded differently from its array product, so 0-d results are not bitwise comparable)
                    singles = np.concatenate([
                        _components(self._wrap(libf(Bicomplex(np.array(z1[k:k + 1]), np.array(z2[k:k + 1]))),
                                               Bicomplex))
                        for k in range(len(pts))], axis=0)
        except Violation as v:
            v.details.update(attrs)
            raise
        if lib.shape != (len(pts), 4):
            raise Violation('shape', '%s: result has %d elements for %d points' % (what, lib.shape[0], len(pts)),
                            **attrs)
        ctx.count('kind=%s' % kind)
        ctx.count('fn=%s' % fname)
        ctx.count('scalar' if scalar else 'array')
        if flags_neg:
            ctx.count('negative-real-part route')
        if over300:
            ctx.count('tanh/coth argument > 300')
        if case.get('z2zero'):
            ctx.count('z2 = 0')
        if fname == 'arctan' and kind == 'unary' and any(abs(p[2]) >= 1 for p in pts):
            ctx.count('arctan with |imag2| >= 1 (pi-correction of _arg_c live)')
        if singles is not None and not np.array_equal(lib, singles, equal_nan=True):
            k = int(np.argmax(np.any(lib != singles, axis=1)))
            raise Violation('array-elementwise', '%s: element %d of the array result %r differs from the '
                            'length-1 array result %r' % (what, k, lib[k].tolist(), singles[k].tolist()), **attrs)
        clause = 'complex-reduction' if (kind != 'deriv' and all(p[2] == 0 and p[3] == 0 for p in pts)) \
            else 'value'
        worst = 0.0
        for k, (pt, ev) in enumerate(zip(pts, evs)):
            orc = ev.recombined()
            if not np.all(np.isfinite(lib[k])):
                raise Violation('finite', '%s at z1=%r z2=%r: library %r, oracle %r' % (
                    what, z1[k], z2[k], lib[k].tolist(), [float(v) for v in orc]),
                    z1=z1[k], z2=z2[k], lib=lib[k].tolist(), oracle=[float(v) for v in orc], **attrs)
            err = max(abs(mp.mpf(float(lib[k][i])) - orc[i]) for i in range(4))
            unit = EPS * ev.e + UNDERFLOW / TOL_VALUE
            ratio = float(err / unit)
            worst = max(worst, ratio)
            tag = fname + ('/neg' if flags_neg else '')
            ctx.track('value err/(eps E) %s' % tag, ratio,
                      dict(name=name, z1=z1[k], z2=z2[k], E=ev.e, err=float(err)))
            if ratio > TOL_VALUE:
                i = max(range(4), key=lambda i: abs(mp.mpf(float(lib[k][i])) - orc[i]))
                raise Violation(clause, '%s at z1=%r z2=%r: component %d library %r, oracle %r; max error %.3g = '
                                '%.3g eps E (E = %.3g)' % (what, z1[k], z2[k], i, float(lib[k][i]),
                                                           float(orc[i]), float(err), ratio, ev.e),
                                z1=z1[k], z2=z2[k], lib=lib[k].tolist(), oracle=[float(v) for v in orc],
                                ratio=ratio, **attrs)
        ctx.track('kappa (M/m of inverted / log arguments)', kappa)
        if kind == 'deriv':
            self._deriv_clause(case, ctx, an, lib[0], evs[0], attrs, what)
            return
        # --- non-triviality
        nt = all(min(abs(p[1]), abs(p[2]), abs(p[3])) >= NONTRIV_REL * max(abs(p[0]), FLOOR) for p in pts)
        if nt:
            ctx.nontriv(dict(name=name, tree=case.get('tree'), pts=pts, w=case.get('w')))
            ctx.count('nontrivial fn=%s' % fname)
        if 'gid' in case:
            ctx.count('dedicated expm1/log1p grid')
        if 'gid' not in case or case['gid'] % 97 == 0:
            ctx.sample(dict(what=what, z1=z1[0], z2=z2[0], library=lib[0].tolist(),
                            oracle=[float(v) for v in evs[0].recombined()], E=evs[0].e, ratio_to_eps_E=worst))

    def _deriv_clause(self, case, ctx, an, lib, ev, attrs, what):
        x, h, form = case['x'], case['h'], case['form']
        try:
            f1, f2 = an.exact(1), an.exact(2)
        except JetDomainError as exc:
            ctx.skip('jet domain: %s' % str(exc)[:40])
        reach = (2.0 if form == 'jh' else 1.0) * h
        r1 = an.rho_cert / 2.0
        targets = [('deriv1', lib[1] / h, f1, 3, h)]
        if form == 'jh':
            targets.append(('deriv2', lib[3] / h ** 2, f2, 4, h * h))
        nontriv = True
        for clause, val, exact, n, div in targets:
            S = an.scale(n, reach, r1)
            if S is None or not math.isfinite(S):
                ctx.count('deriv: no finite S_%d' % n)
                nontriv = False
                continue
            # Taylor remainder <= rig * h^2 * S_n with rig = 2/3 (imag1, jh), 1/3 (imag12), 1/6 (z2 = 0)
            trunc = C_TRUNC * h * h * S
            rnd = (EPS * ev.e + UNDERFLOW / TOL_VALUE) / div
            tol = trunc + TOL_VALUE * rnd
            err = float(abs(mp.mpf(float(val)) - exact))
            ctx.track('%s err/tol' % clause, err / tol if tol > 0 else (0.0 if err == 0 else math.inf),
                      dict(name=case['name'], x=x, h=h, err=err, trunc=trunc, rnd=rnd))
            rig = 1.0 / 6.0 if form == 'z2zero' else (2.0 / 3.0 if n == 3 else 1.0 / 3.0)
            excess = err - rig * h * h * S
            if excess > 0 and rnd > 0:
                ctx.track('%s rounding part/(eps E/h^n)' % clause, excess / rnd)
            if not err <= tol:
                raise Violation(clause, '%s at x=%r h=%r (%s): %s = %r, exact %r, error %.3g > tolerance %.3g '
                                '(truncation %.3g + rounding %.3g)' % (
                                    what, x, h, form, 'imag1/h' if n == 3 else 'imag12/h^2', float(val),
                                    float(exact), err, tol, trunc, TOL_VALUE * rnd),
                                x=x, h=h, lib=float(val), oracle=float(exact), **attrs)
            if not tol <= 0.1 * abs(float(exact)):
                nontriv = False
        ctx.count('deriv form=%s' % form)
        if nontriv:
            ctx.nontriv(dict(name=case['name'], tree=case['tree'], x=x, h=h, form=form))
            ctx.count('nontrivial deriv')

    def finding_key(self, case, violation):
        d = violation.details
        key = {'clause': violation.clause, 'kind': (case or {}).get('kind')}
        for k in ('function', 'negative_real_part', 'arg_over_300', 'regimes', 'exception', 'where'):
            if k in d:
                key[k] = d[k]
        if 'function' not in key and case:
            key['function'] = str(case.get('name', '')).split(':')[0]
        regs = key.get('regimes') or []
        # |u|^2 over- or underflows inside the class's complex modulus (|u| beyond 1e+-150)
        key['extreme_modulus'] = any(str(r).endswith((':huge', ':tiny')) for r in regs)
        return key


PROP = C12()
