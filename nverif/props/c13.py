"""C13 - dea3 recovers the limit of a single geometric transient and is total on finite input.

Oracle: the three-term Shanks transform of the *float* inputs in Fractions (nverif.oracle.shanks),
with the two guards of dea3 (eps-convergence, |sss*e1| <= 1e-4) evaluated exactly and widened by a
factor 4: borderline / fired cases are skipped (counted) for the accuracy clauses.
"""
import math
from fractions import Fraction

import numpy as np
from hypothesis import strategies as st

from nverif.engine import Prop, Violation
from nverif.oracle.shanks import geometric_terms, shanks_analysis

C_RESULT = 16.0       # |result - S| <= C_RESULT * T
C_INPUT = 16.0        # |S - L|      <= C_INPUT * T   (rounding of the three inputs)
C_HONEST = 50.0       # abserr >= |result - L| - C_HONEST * T
NONTRIV = 100.0       # non-trivial: applied correction |1/sss| > NONTRIV * T
GUARD_BOUND = 2.0e4   # documented guard => |correction| < 1e4 |e1|, so |result| <= 2e4 max|e_i|
MAG = 1e100           # "moderate magnitude" of the totality part
TINY = 2.2250738585072014e-308


# ------------------------------------------------------------------------------- generators ---

def _q_strategy():
    return st.one_of(
        st.floats(-50.0, -0.02, exclude_max=True),
        st.floats(0.02, 0.98, exclude_min=True, exclude_max=True),
        st.floats(1.02, 50.0, exclude_min=True),
        st.floats(-1.5, -0.5), st.floats(0.3, 0.9),             # the practically common range
    )


@st.composite
def geo_case(draw):
    mode = draw(st.sampled_from(['independent', 'independent', 'ratio', 'L=0']))
    sL = draw(st.sampled_from([1.0, -1.0]))
    sa = draw(st.sampled_from([1.0, -1.0]))
    a = sa * 10.0 ** draw(st.floats(-15, 15))
    if mode == 'independent':
        L = sL * 10.0 ** draw(st.floats(-15, 15))
    elif mode == 'ratio':       # transient visible above the rounding of L
        L = sL * min(1e15, max(1e-15, abs(a) * 10.0 ** draw(st.floats(-12, 12))))
    else:
        L = 0.0
    q = draw(_q_strategy())
    k = draw(st.integers(0, 5))
    return dict(kind='geo', mode=mode, L=float(L), a=float(a), q=float(q), k=k)


def _triple(draw):
    """One (e0, e1, e2) for the totality part."""
    big = st.floats(-MAG, MAG, allow_nan=False, allow_infinity=False)
    kind = draw(st.sampled_from(['free', 'free', 'scaled', 'tie01', 'tie12', 'tie02', 'const',
                                 'zeros', 'arith', 'subnormal', 'ulp', 'e1zero']))
    if kind == 'free':
        return kind, [draw(big), draw(big), draw(big)]
    if kind == 'scaled':
        s = 10.0 ** draw(st.floats(-100, 99))
        return kind, [s * draw(st.floats(-10, 10)) for _ in range(3)]
    x, y = draw(big), draw(big)
    if kind == 'tie01':
        return kind, [x, x, y]
    if kind == 'tie12':
        return kind, [y, x, x]
    if kind == 'tie02':
        return kind, [x, y, x]
    if kind == 'const':
        return kind, [x, x, x]
    if kind == 'zeros':
        pat = draw(st.sampled_from([(0, 0, 0), (0, 0, 1), (1, 0, 0), (0, 1, 0), (1, 1, 0), (0, 1, 1)]))
        vals = [x, y]
        return kind, [0.0 if p == 0 else vals[i % 2] for i, p in enumerate(pat)]
    if kind == 'arith':           # equal differences: sss == 0 exactly
        c = float(draw(st.integers(-1000, 1000)))
        h = float(draw(st.integers(-64, 64))) * 2.0 ** draw(st.integers(-20, 20))
        return kind, [c - h, c, c + h]
    if kind == 'e1zero':
        return kind, [x, 0.0, y]
    if kind == 'subnormal':       # differences (and values) below the smallest normal number
        base = draw(st.sampled_from([0.0, TINY, -TINY, 1e-300]))
        steps = [draw(st.integers(-2 ** 40, 2 ** 40)) * 5e-324 for _ in range(3)]
        return kind, [base + t for t in steps]
    # 'ulp': neighbours of one float
    n1 = draw(st.integers(-3, 3))
    n2 = draw(st.integers(-3, 3))

    def step(v, n):
        for _ in range(abs(n)):
            v = math.nextafter(v, math.inf if n > 0 else -math.inf)
        return v
    return kind, [x, step(x, n1), step(x, n2)]


@st.composite
def total_case(draw):
    shape = draw(st.sampled_from([[], [], [1], [2], [3], [7], [40], [1, 5], [2, 3], [5, 1], [2, 2, 2],
                                  [4, 10], [13, 3]]))
    if shape == [7]:
        shape = [draw(st.integers(2, 40))]
    size = 1
    for s in shape:
        size *= s
    kinds, v0, v1, v2 = [], [], [], []
    for _ in range(size):
        kd, (a, b, c) = _triple(draw)
        kinds.append(kd)
        v0.append(float(a))
        v1.append(float(b))
        v2.append(float(c))
    return dict(kind='total', shape=shape, v0=v0, v1=v1, v2=v2, kinds=sorted(set(kinds)),
                symmetric=draw(st.booleans()), readonly=draw(st.booleans()))


def _bits(arr):
    return np.ascontiguousarray(np.asarray(arr, dtype=float)).view(np.uint64)


def _same_bits(a, b):
    a, b = np.asarray(a, dtype=float), np.asarray(b, dtype=float)
    return a.shape == b.shape and np.array_equal(_bits(a), _bits(b))


class C13(Prop):
    id = 'C13'
    title = 'dea3 recovers the limit of a geometric transient and never produces garbage'
    rule = ('geo: e_i = fl(L + a q^(k+i)), i=0..2, built in Fractions; |L|,|a| = 10^U(-15,15) (independent, '
            'ratio-controlled or L=0), q in (-50,50) minus [-0.02,0.02] and [0.98,1.02], k in 0..5. Oracle: exact '
            'Shanks transform S of the float triple. Cases where the exact eps-convergence guard or the '
            'exact |sss e1| <= 1e-4 guard fires or is within a factor 4 of firing, or whose rounded terms do not '
            'resolve the curvature (|d2-d1| <= 8u max|e_i|), are skipped and counted. '
            'Non-trivial geo case = no guard fired and the applied correction |1/sss| > 100 T; distinct by '
            '(L,a,q,k). total: arrays (shape <= 40 elements, or scalars) of triples from '
            'floats(-1e100,1e100), ties, constants, zeros, arithmetic progressions, subnormal differences, '
            'ulp-neighbours; symmetric in {False,True}; read-only inputs half of the time. Non-trivial total '
            'case = at least 2 elements and at least one element takes the extrapolation branch and one the '
            'converged branch (abserr pattern), distinct by inputs.')
    assumptions = ('python fractions.Fraction arithmetic is exact',
                   'T = eps*[max|e_i|(1+kappa) + |1/sss| + |S|], kappa = (d1^2+d2^2)/(d2-d1)^2 (conditioning of '
                   'the three-term Shanks formula) maximised over the rounding box of the inputs: '
                   'kappa = ((|d1|+p)^2+(|d2|+p)^2)/(|d2-d1|-2p)^2, p = 2u max|e_i|; triples with |d2-d1| <= 4p are '
                   'skipped and counted; constants >= 10x above the worst ratio seen',
                   'clause guard-bound (|result| <= 2e4 max|e_i|) is the reading of "never produces garbage" '
                   'implied by the documented |sss e1| <= 1e-4 guard: the correction is only applied when it is '
                   'smaller than 1e4 |e1|')
    constants = {'C_RESULT': C_RESULT, 'C_INPUT': C_INPUT, 'C_HONEST': C_HONEST, 'NONTRIV': NONTRIV,
                 'GUARD_BOUND': GUARD_BOUND, 'MAG': MAG, 'GUARD_WIDEN': 4}
    examples = {'quick': 3500, 'thorough': 40000}
    fuzz = {'thorough': 30000}        # atheris executions (secondary engine, thorough tier)

    def strategy(self, tier):
        return st.one_of(geo_case(), geo_case(), total_case())

    # ------------------------------------------------------------------------------ geo ---
    def check_geo(self, case, ctx):
        import numdifftools.extrapolation as ext
        L, a, q, k = case['L'], case['a'], case['q'], case['k']
        exact, e = geometric_terms(L, a, q, k)
        with ctx.lib('no-exception', 'dea3(%r, %r, %r)' % tuple(e)):
            res, err = ext.dea3(e[0], e[1], e[2])
        res, err = np.asarray(res), np.asarray(err)
        if res.shape != (1,) or err.shape != (1,):
            raise Violation('shape', 'scalar input gave shapes %s, %s' % (res.shape, err.shape))
        r, ae = float(res[0]), float(err[0])
        if not (math.isfinite(r) and math.isfinite(ae)):
            raise Violation('finite', 'dea3(%r,%r,%r) = (%r, %r)' % (e[0], e[1], e[2], r, ae))
        if not ae >= 0:
            raise Violation('abserr-nonneg', 'abserr = %r' % ae)
        an = shanks_analysis(*e)
        ctx.count('geo mode=%s' % case['mode'])
        if an['eps_guard'] != 'clear':
            ctx.skip('geo: eps-convergence guard %s' % an['eps_guard'])
        if an['irregular_guard'] != 'clear':
            ctx.skip('geo: irregular-behaviour guard %s' % an['irregular_guard'])
        if not an['resolved']:
            ctx.skip('geo: |d2 - d1| <= 8u max|e_i| (curvature not resolved by the rounded terms)')
        S, T, fL = an['S'], an['T_box'], Fraction(L)
        fr = Fraction(r)
        summ = dict(L=L, a=a, q=q, k=k)
        r1 = float(abs(fr - S) / T)
        r2 = float(abs(S - fL) / T)
        ctx.track('geo |result-S|/T', r1, summ)
        ctx.track('geo |S-L|/T', r2, summ)
        if r1 > C_RESULT:
            raise Violation('shanks', 'dea3(%r,%r,%r)[0] = %r, exact Shanks %r (%.3g T)'
                            % (e[0], e[1], e[2], r, float(S), r1), lib=r, oracle=float(S))
        if r2 > C_INPUT:
            raise Violation('limit', 'exact Shanks of the rounded terms %r differs from L = %r by %.3g T'
                            % (float(S), L, r2), oracle=float(S))
        deficit = float((abs(fr - fL) - Fraction(ae)) / T)        # > 0 when abserr < true error
        ctx.track('geo (|result-L|-abserr)/T', deficit, summ)
        if deficit > C_HONEST:
            raise Violation('honest', 'abserr %r < |result - L| = %r by %.3g T'
                            % (ae, float(abs(fr - fL)), deficit), lib=ae)
        aq = abs(q)
        ctx.count('geo |q| %s' % ('<0.5' if aq < 0.5 else '<1' if aq < 1 else '<2' if aq < 2 else '>=2'))
        ctx.count('geo q%s0' % ('<' if q < 0 else '>'))
        kap = float(an['kappa_box'])
        ctx.count('geo kappa %s' % ('<2' if kap < 2 else '<100' if kap < 100 else '>=100'))
        if abs(an['corr']) > NONTRIV * T:
            ctx.nontriv(dict(L=L, a=a, q=q, k=k))
            ctx.sample(dict(L=L, a=a, q=q, k=k, e=e, result=r, abserr=ae, shanks=float(S)))
        else:
            ctx.count('geo trivial (correction below 100 T)')

    # ---------------------------------------------------------------------------- total ---
    def check_total(self, case, ctx):
        import numdifftools.extrapolation as ext
        shape = tuple(case['shape'])
        scalar = (shape == ())
        sym = bool(case['symmetric'])
        if scalar:
            args = [case['v0'][0], case['v1'][0], case['v2'][0]]
            keep = list(args)
        else:
            args = [np.array(case[n], dtype=float).reshape(shape) for n in ('v0', 'v1', 'v2')]
            keep = [x.copy() for x in args]
            if case['readonly']:
                for x in args:
                    x.flags.writeable = False
        what = 'dea3(shape=%s, kinds=%s)' % (list(shape), ','.join(case['kinds']))
        with ctx.lib('no-exception', what):
            res, err = ext.dea3(*args)
        with ctx.lib('no-exception', what + ' symmetric=True'):
            res_s, err_s = ext.dea3(*args, symmetric=True)
        # python floats are immutable; arrays are compared bitwise with the copies taken before
        if not scalar and not all(_same_bits(x, y) for x, y in zip(args, keep)):
            raise Violation('inputs-unchanged', 'dea3 modified its inputs')
        res, err = np.asarray(res), np.asarray(err)
        want = (1,) if scalar else shape
        if res.shape != want or err.shape != want:
            raise Violation('shape', 'input shape %s gave result %s, abserr %s' % (shape, res.shape, err.shape))
        if not (np.all(np.isfinite(res)) and np.all(np.isfinite(err))):
            i = int(np.flatnonzero(~(np.isfinite(res) & np.isfinite(err)).ravel())[0])
            raise Violation('finite', 'element %d: dea3(%r,%r,%r) = (%r, %r)' % (
                i, case['v0'][i], case['v1'][i], case['v2'][i], float(res.ravel()[i]), float(err.ravel()[i])),
                i=i)
        if not np.all(err >= 0):
            raise Violation('abserr-nonneg', 'negative abserr %r' % float(err.min()))
        # the correction is only applied outside the documented guard, hence bounded by 1e4 |e1|
        emax = np.maximum(np.maximum(np.abs(keep[0]), np.abs(keep[1])), np.abs(keep[2])).reshape(want)
        excess = np.abs(res) - GUARD_BOUND * emax
        if np.any(excess > 0):
            i = int(np.argmax(excess.ravel()))
            raise Violation('guard-bound', 'element %d: dea3(%r,%r,%r)[0] = %r exceeds 2e4 max|e_i|' % (
                i, case['v0'][i], case['v1'][i], case['v2'][i], float(res.ravel()[i])), i=i)
        pos = emax.ravel() > 0
        if np.any(pos):
            ctx.track('total |result|/max|e_i|', float(np.max(np.abs(res).ravel()[pos] / emax.ravel()[pos])))
        # elementwise == scalar calls, bitwise
        rflat, eflat = res.ravel(), err.ravel()
        for i in range(rflat.size):
            with ctx.lib('no-exception', 'scalar dea3(%r,%r,%r)' % (case['v0'][i], case['v1'][i], case['v2'][i])):
                r1, e1 = ext.dea3(case['v0'][i], case['v1'][i], case['v2'][i])
            if not (_same_bits(np.ravel(r1), rflat[i:i + 1]) and _same_bits(np.ravel(e1), eflat[i:i + 1])):
                raise Violation('elementwise', 'element %d of the array call (%r, %r) differs from the scalar '
                                'call (%r, %r)' % (i, float(rflat[i]), float(eflat[i]),
                                                   float(np.ravel(r1)[0]), float(np.ravel(e1)[0])), i=i)
        # symmetric=True only trims
        res_s, err_s = np.asarray(res_s), np.asarray(err_s)
        if len(res) > 1:
            ok = _same_bits(res_s, res[:-1]) and _same_bits(err_s, err[1:])
        else:
            ok = (_same_bits(res_s, res) and _same_bits(err_s, err)) or (res_s.size == 0 and err_s.size == 0)
        if not ok:
            raise Violation('symmetric', 'symmetric=True is not (result[:-1], abserr[1:]) of the plain call '
                            'for shape %s' % (list(shape),))
        ctx.count('total shape=%s' % ('scalar' if scalar else '%dd' % len(shape)))
        ctx.count('total readonly=%s' % bool(case['readonly'] and not scalar))
        for kd in case['kinds']:
            ctx.count('total kind=%s' % kd)
        # branch taken: converged elements return e2 exactly
        conv = _bits(rflat) == _bits(np.asarray(case['v2'], dtype=float))
        if rflat.size >= 2 and conv.any() and (~conv).any():
            ctx.nontriv(dict(v0=case['v0'], v1=case['v1'], v2=case['v2'], shape=list(shape)))
            if rflat.size <= 3:
                ctx.sample(dict(v0=case['v0'], v1=case['v1'], v2=case['v2'], result=rflat.tolist(),
                                abserr=eflat.tolist()))

    def check(self, case, ctx):
        if case['kind'] == 'geo':
            return self.check_geo(case, ctx)
        return self.check_total(case, ctx)

    def finding_key(self, case, violation):
        key = {'clause': violation.clause, 'kind': case.get('kind') if case else None}
        if 'exception' in violation.details:
            key['exception'] = violation.details['exception']
        if case and case.get('kind') == 'total':
            key['kinds'] = case.get('kinds')
        return key

    def summary(self, case):
        return case


PROP = C13()
