"""C14 - streaming epsilon algorithms: EpsAlg equals the exact Wynn table; Dea is total.

Oracle: Wynn's epsilon table of the float terms in Fractions with a rigorous running-error bound
B per entry (nverif.oracle.shanks.epsilon_table_bounds); exact Shanks guards (widened x4) for the
third term of Dea.  Beyond the third term Dea is *not* compared with EpsAlg (QUADPACK's rule picks
the entry with the smallest error estimate, not the highest-order one).
"""
import math
from fractions import Fraction

import numpy as np
from hypothesis import strategies as st

from nverif.engine import Prop, Violation
from nverif.oracle.shanks import epsilon_table_bounds, epsalg_target, shanks_analysis

EPS = 2.0 ** -52
C_EPSALG = 16.0        # |EpsAlg - exact entry| <= C_EPSALG * B
C_DEA3 = 8.0           # |Dea term 3 - dea3| <= C_DEA3 * T
C_DEA_EPSALG = 16.0    # |Dea term 3 - EpsAlg term 3| <= C_DEA_EPSALG * B (outside the guards)
FLOOR = 5.0            # abserr >= FLOOR * eps * |result| from the third term on
FLOOR_SLACK = 1e-12    # relative slack on the floor comparison (one rounding)
NE_MAX = 10            # EpsAlg is compared with the exact table on the first NE_MAX terms
NONTRIV_B = 1e-6
TINY = 2.2250738585072014e-308


# ------------------------------------------------------------------------------- generators ---

def _limexp():
    return st.one_of(st.integers(3, 9), st.integers(3, 15), st.integers(3, 60))


def _dyadic(draw, mmax, smax, allow_zero=False):
    m = draw(st.integers(0 if allow_zero else 1, mmax))
    s = draw(st.integers(0, smax))
    sign = draw(st.sampled_from([1, -1]))
    return Fraction(sign * m, 2 ** s)


@st.composite
def geo_stream(draw):
    k = draw(st.integers(1, 4))
    qs = []
    while len(qs) < k:
        q = _dyadic(draw, 15, 3)
        if q != 1 and q not in qs:
            qs.append(q)
    as_ = [_dyadic(draw, 31, 4) for _ in range(k)]
    L = _dyadic(draw, 1023, 6, allow_zero=True)
    want = draw(st.one_of(st.integers(1, 2 * k + 3), st.integers(2 * k + 1, 2 * k + 3)))
    terms = []
    for n in range(want):
        v = L + sum(a * q ** n for a, q in zip(as_, qs))
        f = float(v)
        if Fraction(f) != v:          # keep the exactly representable prefix only
            break
        terms.append(f)
    return dict(kind='geo', family='geo', k=k, L=float(L), a=[float(a) for a in as_],
                q=[float(q) for q in qs], terms=terms, truncated=len(terms) < want,
                limexp=draw(_limexp()))


def _length():
    return st.one_of(st.integers(1, 12), st.integers(1, 60), st.integers(1, 200))


@st.composite
def random_stream(draw):
    fam = draw(st.sampled_from(['free', 'uniform', 'constant', 'repeats', 'alternating', 'slow',
                                'geoconv', 'geoconv', 'geoconv-noise', 'small-int', 'converge-then-free']))
    mag = st.floats(-10, 10)
    sgn = st.sampled_from([1.0, -1.0])
    n = draw(_length())
    if fam == 'free':
        n = min(n, 60)
        terms = [draw(sgn) * 10.0 ** draw(mag) for _ in range(n)]
    elif fam == 'uniform':
        n = min(n, 60)
        s = 10.0 ** draw(mag)
        terms = [s * draw(st.floats(-1, 1)) for _ in range(n)]
    elif fam == 'constant':
        c = draw(st.sampled_from([0.0, 1.0, draw(sgn) * 10.0 ** draw(mag)]))
        terms = [c] * n
    elif fam == 'repeats':
        vals = [draw(sgn) * 10.0 ** draw(mag) for _ in range(draw(st.integers(1, 4)))]
        terms = []
        while len(terms) < n:
            terms.extend([draw(st.sampled_from(vals))] * draw(st.integers(1, 6)))
        terms = terms[:n]
    elif fam == 'alternating':
        c = draw(st.sampled_from([0.0, draw(sgn) * 10.0 ** draw(mag)]))
        d = 10.0 ** draw(mag)
        decay = draw(st.sampled_from([1.0, 1.0, 0.9, 0.5]))
        terms = [c + d * (-decay) ** j for j in range(n)]
    elif fam == 'slow':
        c = draw(sgn) * 10.0 ** draw(mag)
        p = draw(st.sampled_from([1.0, 1.5, 2.0, 3.0]))
        alt = draw(st.booleans())
        acc, terms = 0.0, []
        for j in range(n):
            acc += ((-1.0) ** j if alt else 1.0) / (j + 1.0) ** p
            terms.append(c * acc)
    elif fam in ('geoconv', 'geoconv-noise'):
        L = draw(st.sampled_from([0.0, 1.0, draw(sgn) * 10.0 ** draw(mag)]))
        a = draw(sgn) * 10.0 ** draw(mag)
        q = draw(st.one_of(st.floats(0.01, 0.95), st.floats(-0.95, -0.01),
                              st.sampled_from([0.5, -0.5, 0.25, 0.1, 0.75])))
        terms = [L + a * q ** j for j in range(n)]
        if fam == 'geoconv-noise':
            r = 10.0 ** draw(st.floats(-16, -8))
            terms = [t * (1.0 + r * draw(st.sampled_from([-1.0, 0.0, 1.0]))) for t in terms[:60]]
    elif fam == 'small-int':
        n = min(n, 40)
        terms = [float(draw(st.integers(0, 3))) for _ in range(n)]
    else:   # converge, then arbitrary new terms
        m = draw(st.integers(3, 40))
        q = draw(st.sampled_from([0.5, -0.5, 0.25, 0.1]))
        terms = [1.0 + q ** j for j in range(m)]
        terms += [draw(sgn) * 10.0 ** draw(st.floats(-2, 2)) for _ in range(draw(st.integers(1, 12)))]
    # stay clear of the underflow range (the property speaks of moderate magnitudes)
    terms = [float(t) if abs(t) >= 1e-150 else 0.0 for t in terms]
    return dict(kind='random', family=fam, terms=terms, limexp=draw(_limexp()))


def _finite(x):
    try:
        return math.isfinite(float(x))
    except Exception:
        return False


class C14(Prop):
    id = 'C14'
    title = 'Streaming epsilon algorithms: EpsAlg matches the Shanks table; Dea is total'
    rule = ('Streams fed one term at a time to a fresh EpsAlg and a fresh Dea(limexp). geo: L + sum_{i<=k} '
            'a_i q_i^n, k in 1..4, dyadic L (<=10 bits), a_i (<=5 bits), distinct q_i = +-m/2^s (m<=15, s<=3, '
            'q != 0, 1), up to 2k+3 terms, truncated to the prefix whose terms are exactly representable. '
            'random: free / uniform / constant / repeats / alternating / slowly convergent / float geometric '
            '(runs into full convergence) / noisy / small integers / converge-then-jump, magnitudes '
            '10^U(-10,10) (terms below 1e-150 are flushed to 0: underflow range excluded), lengths 1..200; limexp '
            'in 3..60 with 3..9 and 3..15 over-weighted. EpsAlg is compared '
            'with the exact table on the first 10 terms of every stream. Non-trivial = (EpsAlg) some term '
            'index n >= 4 asserted with B <= 1e-6 |value|, or (Dea) the table filled (n == limexp - 1 before a '
            'call), was reset, or the all-converged branch was reachable (last three table entries equal to '
            'within eps); distinct by (terms, limexp).')
    assumptions = ('python fractions.Fraction arithmetic is exact',
                   'B bounds the error of fl(a + fl(1/fl(x - y))) per table entry rigorously (entries whose '
                   'perturbed difference could lose half its size get B = inf and are not asserted)',
                   'third term Dea vs dea3: tolerance 8 T + 2.2e-308 (dea3 replaces differences below the '
                   'smallest normal number by it, Dea does not)',
                   'Dea._n / Dea.epstab / Dea.limexp are read for classification (table full, reset, '
                   'convergence) and for finding_key only, never for the verdict')
    constants = {'TINY_ABS': TINY, 'C_EPSALG': C_EPSALG, 'C_DEA3': C_DEA3, 'C_DEA_EPSALG': C_DEA_EPSALG, 'FLOOR': FLOOR,
                 'FLOOR_SLACK': FLOOR_SLACK, 'NE_MAX': NE_MAX, 'NONTRIV_B': NONTRIV_B, 'GUARD_WIDEN': 4}
    examples = {'quick': 3000, 'thorough': 20000}
    fuzz = {'thorough': 30000}        # atheris executions (secondary engine, thorough tier)

    def strategy(self, tier):
        return st.one_of(geo_stream(), random_stream(), random_stream())

    # -------------------------------------------------------------------------- EpsAlg ---
    def check_epsalg(self, case, ctx, cols):
        import numdifftools.extrapolation as ext
        terms = case['terms']
        ne = min(len(terms), NE_MAX)
        alg = ext.EpsAlg()
        values, nontriv = [], False
        for n in range(ne):
            with ctx.lib('epsalg-no-exception', 'EpsAlg term %d of %r' % (n + 1, terms[:n + 1])):
                v = alg(terms[n])
            values.append(v)
            E, B = epsalg_target(cols, n)
            if E is None:
                ctx.count('epsalg: vanishing exact difference (not asserted)')
                continue
            if not math.isfinite(B):
                ctx.count('epsalg: bound invalid, ill-conditioned (not asserted)')
                continue
            if not _finite(v):
                raise Violation('epsalg-table', 'EpsAlg term %d returned %r, exact entry %r'
                                % (n + 1, v, float(E)), n=n, lib=repr(v), oracle=float(E))
            err = float(abs(Fraction(float(v)) - E))
            if B > 0:
                ctx.track('epsalg |value-exact|/B', err / B, dict(terms=terms[:n + 1]))
            if err > C_EPSALG * B:
                raise Violation('epsalg-table', 'EpsAlg term %d of %r returned %r, exact eps_%d^(%d) = %r '
                                '(error %.3g, bound B = %.3g)' % (n + 1, terms[:n + 1], float(v), 2 * (n // 2),
                                                                  n % 2, float(E), err, B),
                                n=n, lib=float(v), oracle=float(E), B=B)
            ctx.count('epsalg asserted n=%d' % n)
            if n >= 4 and B <= NONTRIV_B * float(abs(E)):
                nontriv = True
        if case['kind'] == 'geo':
            k = case['k']
            if len(terms) >= 2 * k + 1:
                E, B = epsalg_target(cols, 2 * k)
                if E is not None:
                    if E != Fraction(case['L']):       # theorem: the exact table reproduces L
                        raise AssertionError('oracle: exact eps_2k^(0) != L for %r' % (case,))
                    ctx.count('epsalg geo: limit recovered from 2k+1 terms, k=%d%s'
                              % (k, '' if math.isfinite(B) else ' (bound invalid)'))
                else:
                    ctx.count('epsalg geo: degenerate (vanishing difference before column 2k)')
            else:
                ctx.count('epsalg geo: fewer than 2k+1 terms%s'
                          % (' (truncated: inexact term)' if case.get('truncated') else ''))
        return values, nontriv

    # ----------------------------------------------------------------------------- Dea ---
    def check_dea(self, case, ctx, cols, eps_values):
        import numdifftools.extrapolation as ext
        terms, limexp = case['terms'], case['limexp']
        with ctx.lib('dea-no-exception', 'Dea(limexp=%d)' % limexp):
            dea = ext.Dea(limexp)
        eff = getattr(dea, 'limexp', None)
        flags = set()
        for i, s in enumerate(terms):
            pre_n = getattr(dea, '_n', None)
            if isinstance(pre_n, int) and isinstance(eff, int):
                if pre_n == eff - 1:
                    flags.add('table-full')
                if pre_n >= 2:
                    try:
                        t = dea.epstab
                        e0, e1 = float(t[pre_n - 2]), float(t[pre_n - 1])
                        if (abs(s - e1) <= max(abs(s), abs(e1)) * EPS and
                                abs(e1 - e0) <= max(abs(e1), abs(e0)) * EPS):
                            flags.add('converged')
                    except Exception:
                        pass
            beyond = bool(isinstance(pre_n, int) and isinstance(eff, int) and pre_n >= eff)
            underflow = False
            if isinstance(pre_n, int):
                try:
                    head = np.abs(np.asarray(dea.epstab[:pre_n], dtype=float))
                    underflow = bool(np.any((head > 0) & (head < 1e-290)))
                except Exception:
                    pass
            after_reset = bool(i >= 2 and isinstance(pre_n, int) and pre_n < 2)
            try:
                with ctx.lib('dea-no-exception', 'Dea(limexp=%d) term %d of a %d-term %s stream'
                             % (limexp, i + 1, len(terms), case['family'])):
                    res, err = dea(s)
            except Violation as v:
                v.details.update(term=i, pre_n=pre_n, n_beyond_table=beyond, limexp=limexp)
                raise
            post_n = getattr(dea, '_n', None)
            if isinstance(pre_n, int) and isinstance(post_n, int) and pre_n >= 2 and post_n <= pre_n:
                flags.add('reset' if post_n < pre_n else 'table-capped')
            det = dict(term=i, pre_n=pre_n, limexp=limexp, after_reset=after_reset, n_beyond_table=beyond)
            if not (_finite(res) and _finite(err)):
                nan = bool(res != res or err != err)
                raise Violation('dea-finite', 'Dea(limexp=%d) term %d of a %d-term %s stream returned (%r, %r) '
                                'for finite input' % (limexp, i + 1, len(terms), case['family'], float(res),
                                                      float(err)),
                                nan=nan, table_underflow=underflow, **det)
            res, err = float(res), float(err)
            if i < 2:
                if not (res == s):
                    raise Violation('dea-echo', 'term %d: result %r is not the input %r' % (i + 1, res, s), **det)
                continue
            if i == 2:
                self.check_third(case, ctx, cols, eps_values, res, det)
            floor = FLOOR * EPS * abs(res)
            if floor > 0:
                ctx.track('dea floor/abserr (must be <= 1)', floor / err if err > 0 else float('inf'))
            if not err >= floor * (1.0 - FLOOR_SLACK):
                raise Violation('dea-abserr-floor', 'Dea(limexp=%d) term %d of %r: abserr %r < 5 eps |result| '
                                '= %r' % (limexp, i + 1, terms[:i + 1] if i < 12 else '%d terms' % (i + 1),
                                          err, floor), lib=err, oracle=floor, **det)
        for f in flags:
            ctx.count('dea ' + f)
        return flags

    def check_third(self, case, ctx, cols, eps_values, res, det):
        import numdifftools.extrapolation as ext
        s0, s1, s2 = case['terms'][:3]
        with ctx.lib('dea3-no-exception', 'dea3(%r, %r, %r)' % (s0, s1, s2)):
            r3 = float(np.ravel(ext.dea3(s0, s1, s2)[0])[0])
        an = shanks_analysis(s0, s1, s2)
        emax = max(abs(s0), abs(s1), abs(s2))
        unit = (float(an['T']) if an['T'] is not None else EPS * emax) + TINY    # + underflow level
        diff = abs(res - r3)
        if unit > 0:
            ctx.track('dea term3 |Dea-dea3|/T', diff / unit, dict(terms=[s0, s1, s2]))
        if diff > C_DEA3 * unit:
            raise Violation('dea-term3-dea3', 'third term of (%r, %r, %r): Dea %r, dea3 %r'
                            % (s0, s1, s2, res, r3), lib=res, dea3=r3, **det)
        if an['eps_guard'] != 'clear' or an['irregular_guard'] != 'clear':
            ctx.count('dea term3: guard %s/%s (EpsAlg not compared)' % (an['eps_guard'], an['irregular_guard']))
            return
        E, B = cols[2][0]
        if E is None or not math.isfinite(B) or len(eps_values) < 3:
            ctx.count('dea term3: bound invalid (EpsAlg not compared)')
            return
        d2 = abs(res - float(eps_values[2]))
        if B > 0:
            ctx.track('dea term3 |Dea-EpsAlg|/B', d2 / B, dict(terms=[s0, s1, s2]))
        if d2 > C_DEA_EPSALG * B:
            raise Violation('dea-term3-epsalg', 'third term of (%r, %r, %r): Dea %r, EpsAlg %r, exact %r'
                            % (s0, s1, s2, res, float(eps_values[2]), float(E)),
                            lib=res, epsalg=float(eps_values[2]), oracle=float(E), **det)
        ctx.count('dea term3: compared with EpsAlg')

    # ---------------------------------------------------------------------------------------
    def check(self, case, ctx):
        terms = case['terms']
        if not terms:
            ctx.skip('no exactly representable term')
        if case['kind'] == 'geo':          # harness consistency: the stream is what the parameters say
            L, qs, as_ = Fraction(case['L']), [Fraction(q) for q in case['q']], [Fraction(a) for a in case['a']]
            for n, t in enumerate(terms):
                if Fraction(t) != L + sum(a * q ** n for a, q in zip(as_, qs)):
                    raise AssertionError('geo stream term %d is not exact' % n)
        cols = epsilon_table_bounds(terms[:NE_MAX])
        eps_values, nt_eps = self.check_epsalg(case, ctx, cols)
        flags = self.check_dea(case, ctx, cols, eps_values)
        ctx.count('family=%s' % case['family'])
        ctx.count('limexp %s' % ('3-5' if case['limexp'] <= 5 else '6-15' if case['limexp'] <= 15 else '16-60'))
        n = len(terms)
        ctx.count('length %s' % ('1-2' if n < 3 else '3-9' if n < 10 else '10-59' if n < 60 else '60-200'))
        if nt_eps:
            ctx.count('nontrivial: epsalg')
        if flags & {'table-full', 'reset', 'converged'}:
            ctx.count('nontrivial: dea')
        if nt_eps or flags & {'table-full', 'reset', 'converged'}:
            ctx.nontriv(dict(terms=terms, limexp=case['limexp']))
            if n <= 9:
                ctx.sample(dict(terms=terms, limexp=case['limexp'], epsalg=[float(v) for v in eps_values],
                                exact=[None if epsalg_target(cols, j)[0] is None
                                       else float(epsalg_target(cols, j)[0]) for j in range(min(n, NE_MAX))]))

    def finding_key(self, case, violation):
        d = violation.details
        key = {'clause': violation.clause, 'family': case.get('family') if case else None}
        for name in ('exception', 'where', 'after_reset', 'n_beyond_table', 'nan', 'table_underflow'):
            if name in d:
                key[name] = d[name]
        return key


PROP = C14()
