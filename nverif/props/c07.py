"""C07 - Richardson extrapolation removes exactly the modelled error terms.

Oracle: the weights are the coefficients of prod_j (x - x_j)/(1 - x_j), x_j = ratio**-(order+step*j)
(exact Fraction elimination for real ratios, 120-digit mpmath for complex ones); the model
sequences L + sum_j a_j h_i**(order+step*j) are evaluated at 60 digits and rounded once.
"""
import math

import numpy as np
from hypothesis import strategies as st

from nverif.engine import Prop, Violation
from nverif.oracle import richardson as orc

EPS = 2.0 ** -52
TINY = 2.0 ** -1022    # underflow threshold: absolute floor of the output tolerance
C_W = 100.0        # weight residuals: C_W * eps * sum|w_exact|
C_OUT = 100.0      # outputs:          C_OUT * eps * sum|w_exact| * max|sequence column|


def _cx(v):
    """JSON value -> float or complex."""
    return complex(v[0], v[1]) if isinstance(v, (list, tuple)) else float(v)


@st.composite
def richardson_case(draw):
    kind = draw(st.sampled_from(['special', 'uniform', 'uniform', 'log', 'near1', 'edge']))
    # 48 random bits -> u uniform on (0, 1]; st.floats would return the bounds far too often
    u = (int.from_bytes(draw(st.binary(min_size=6, max_size=6)), 'big') + 1) / 2.0 ** 48
    if kind == 'special':
        rho = draw(st.sampled_from([1.6, 2.0, 4.0]))
    elif kind == 'uniform':
        rho = 1.05 + (100.0 - 1.05) * u
    elif kind == 'log':
        rho = 1.05 * (100.0 / 1.05) ** u
    elif kind == 'near1':
        rho = 1.05 + (1.6 - 1.05) * u
    else:
        rho = draw(st.sampled_from([1.0500000000000003, 1.1, 1.5, 3.0, 10.0, 100.0]))
    rho = min(max(rho, 1.0500000000000003), 100.0)
    cplx_ratio = draw(st.integers(0, 9)) < 3
    if cplx_ratio:
        v = int.from_bytes(draw(st.binary(min_size=6, max_size=6)), 'big') / 2.0 ** 48
        theta = draw(st.sampled_from([2.0 * v - 1.0, 2.0 * v - 1.0, 2.0 * v - 1.0, 0.0, 1.0, -1.0,
                                      math.pi / 8]))
        z = rho * complex(math.cos(theta), math.sin(theta))
        if abs(z) <= 1.05:              # rounding at the lower edge
            z = z * 1.001
        ratio = [z.real, z.imag]
    else:
        ratio = float(rho)
    cplx_data = cplx_ratio or draw(st.integers(0, 9)) < 2
    step = draw(st.integers(1, 4))
    order = draw(st.integers(1, 8))
    num_terms = draw(st.integers(0, 5))
    length = draw(st.one_of(st.integers(1, 20), st.integers(1, 7)))
    ncols = draw(st.integers(1, 3))
    coef = st.floats(-5.0, 5.0)

    def number():
        return [draw(coef), draw(coef)] if cplx_data else draw(coef)
    cols = []
    for _ in range(ncols):
        cols.append(dict(L=number(), a=[number() for _ in range(num_terms)],
                         h0=10.0 ** draw(st.floats(-2.0, 0.0))))
    return dict(ratio=ratio, step=step, order=order, num_terms=num_terms, length=length,
                cols=cols, ratio_kind=kind)


class C07(Prop):
    id = 'C07'
    title = 'Richardson extrapolation removes exactly the modelled error terms'
    rule = ('Hypothesis draws |ratio| from {1.6, 2, 4}, U(1.05, 100], log-U(1.05, 100], U(1.05, 1.6], '
            '{1.05+, 1.1, 1.5, 3, 10, 100}; 30 % complex ratios rho*exp(i*theta), theta in U(-1, 1) '
            'or {0, 1, -1, pi/8}; step 1..4, order 1..8, '
            'num_terms 0..5, length 1..20, 1..3 columns each with its own L, a_j in U(-5, 5) '
            '(complex for complex ratios and for 20 % of the real ones) and h0 in 10^U(-2, 0). '
            'The sequence holds exactly the used = min(num_terms, len-1) modelled terms. '
            'Non-trivial = used >= 1 and some column has |a_j h0^p_j| > 1e-6 |L| for a j < used; '
            'distinct by the whole case.')
    assumptions = (
        'Fraction arithmetic is exact; mpmath at 60 (sequences) / 120 (complex weights) digits is '
        'exact for the purpose of a 1e-14 comparison; the complex weights are verified against '
        'their defining system',
        'steps are passed as the positive magnitudes |h_i| (what Derivative passes); a complex '
        'steps array is not exercised',
        'weight clause: exact residuals |sum w - 1| and |sum_i w_i ratio^(-i p_j)| of the float '
        'weights returned by Richardson.rule(len) are at most C_W*eps*(used+1)*sum|w_exact| '
        '(conditioning kappa = (used+1)*sum|w_exact|: the 1-norm of the exact weights times the '
        'bound used+1 on the 2-norm of the system matrix, whose entries have modulus <= 1; the '
        'weights themselves are NOT compared: scipy pinv truncates singular values below '
        '(used+1)*eps*sigma_max, which for large ratios replaces negligible weights by the '
        'minimum-norm solution and leaves residuals of that size)',
        'output clause: |out_i - L| <= C_OUT*eps*(used+1)*sum|w_exact|*S + sum|w_exact|*2^-1022 with '
        'S = max(max|sequence column|, |L| + sum_j |a_j| h0^p_j): S is max|seq| unless the modelled '
        'terms cancel, in which case the admissible weight residual multiplies the individual terms',
        'constants calibrated >= 10x above the worst ratio over 8 quick seeds (see worst_ratios)')
    constants = {'C_W': C_W, 'C_OUT': C_OUT, 'oracle_digits': orc.DPS}
    examples = {'quick': 3000, 'thorough': 60000}

    def strategy(self, tier):
        return richardson_case()

    def check(self, case, ctx):
        from numdifftools.extrapolation import Richardson
        ratio = _cx(case['ratio'])
        cplx_ratio = isinstance(ratio, complex)
        step, order, num_terms, length = case['step'], case['order'], case['num_terms'], case['length']
        cols = case['cols']
        ncols = len(cols)
        used = min(num_terms, length - 1)
        if not abs(ratio) > 1.05:
            ctx.skip('|ratio| <= 1.05')
        tag = 'Richardson(%r, step=%d, order=%d, num_terms=%d)' % (ratio, step, order, num_terms)

        # ---------------- oracle ----------------
        if cplx_ratio:
            w_exact, xs = orc.weights_complex(ratio, step, order, used)
        else:
            w_exact, xs = orc.weights_real(ratio, step, order, used)
        sum_w = float(sum(abs(v) for v in w_exact))
        data, habs = [], []
        for c in cols:
            vals, hh = orc.model_sequence(_cx(c['L']), [_cx(a) for a in c['a'][:used]], ratio,
                                          c['h0'], step, order, length)
            data.append(vals)
            habs.append(hh)
        seq = np.array(data).T.copy()            # (length, ncols)
        steps = np.array(habs, dtype=float).T.copy()
        if not np.all(np.isfinite(seq)):
            ctx.skip('model sequence not finite')

        # ---------------- library ----------------
        with ctx.lib('no-exception', tag):
            rich = Richardson(step_ratio=ratio, step=step, order=order, num_terms=num_terms)
            w_lib = np.asarray(rich.rule(length))
            out, abserr, hout = rich(seq.copy(), steps.copy())
            out, abserr, hout = np.asarray(out), np.asarray(abserr), np.asarray(hout)
            # the same configuration on an object that has handled shorter sequences before: the mapping
            # sequence -> outputs is a function of the configuration, not of what the object saw earlier
            reused = None
            if length >= 2:
                rich2 = Richardson(step_ratio=ratio, step=step, order=order, num_terms=num_terms)
                for k in (1, 2):
                    if k < length:
                        rich2.rule(k)
                        rich2(seq[:k].copy(), steps[:k].copy())
                reused = [np.asarray(v) for v in rich2(seq.copy(), steps.copy())]
        if reused is not None:
            ctx.count('reuse clause asserted%s' % (' (earlier sequence shorter than num_terms+1)'
                                                    if num_terms > 0 else ''))
            for nm, u, v in zip(('result', 'abserr', 'steps'), (out, abserr, hout), reused):
                if u.shape != v.shape or not np.array_equal(u, v, equal_nan=True):
                    raise Violation('reuse', '%s: %s differs on an object that was first given the 1- and 2-term '
                                    'prefixes (shapes %s / %s)' % (tag, nm, u.shape, v.shape), field=nm)
            if rich2.num_terms != num_terms:
                raise Violation('reuse', '%s: num_terms is %r after handling short sequences' % (tag, rich2.num_terms))

        ctx.count('ratio=%s%s' % (case.get('ratio_kind'), '/complex' if cplx_ratio else ''))
        ctx.count('used=%d' % used)
        ctx.count('short' if num_terms > length - 1 else 'full')
        ctx.count('len=%s' % ('1' if length == 1 else '2-5' if length <= 5 else '6-20'))
        ctx.count('ncols=%d' % ncols)
        ctx.count('data=%s' % ('complex' if np.iscomplexobj(seq) else 'real'))

        # (1) weights
        if w_lib.shape != (used + 1,):
            raise Violation('weights-shape', '%s.rule(%d) has shape %s, expected (%d,)'
                            % (tag, length, w_lib.shape, used + 1))
        if not np.all(np.isfinite(w_lib)):
            raise Violation('weights-finite', '%s.rule(%d) is not finite' % (tag, length))
        if np.iscomplexobj(w_lib) and not cplx_ratio:
            raise Violation('weights-shape', '%s.rule is complex for a real ratio' % tag)
        res = orc.residuals(w_lib, xs, cplx_ratio)
        unit_w = EPS * (used + 1) * sum_w
        for j, rj in enumerate(res):
            ctx.track('weights_residual/(eps*(used+1)*sum|w|)', rj / unit_w,
                      dict(ratio=case['ratio'], step=step, order=order, used=used, j=j))
            if rj > C_W * unit_w:
                what = 'sum w - 1' if j == 0 else 'sum_i w_i ratio^(-%d i)' % (order + step * (j - 1))
                raise Violation('weights', '%s.rule(%d): |%s| = %.3g exceeds %g*eps*(used+1)*sum|w_exact| = %.3g'
                                % (tag, length, what, rj, C_W, C_W * unit_w),
                                residual=rj, sum_w=sum_w, rule=w_lib, row=j)

        # (2) number of outputs
        m = length - used
        if out.shape != (m, ncols) or hout.shape != (m, ncols):
            raise Violation('count', '%s on a (%d, %d) sequence returned result/steps of shapes %s, %s; '
                            'expected (%d, %d)' % (tag, length, ncols, out.shape, hout.shape, m, ncols))
        if not np.array_equal(hout, steps[:m]):
            raise Violation('count', '%s: returned steps are not the first %d input steps' % (tag, m))

        # (3) every slot equals L
        for c, col in enumerate(cols):
            L = _cx(col['L'])
            # magnitude of the components of the sequence (= max|seq| unless the terms cancel)
            smax = max(float(np.max(np.abs(seq[:, c]))),
                       abs(L) + sum(abs(_cx(a)) * col['h0'] ** (order + step * j)
                                    for j, a in enumerate(col['a'][:used])))
            unit = EPS * (used + 1) * sum_w * smax + TINY * sum_w
            err = np.abs(out[:, c] - L)
            if not np.all(np.isfinite(err)):
                raise Violation('limit', '%s: output column %d is not finite' % (tag, c), out=out[:, c])
            i = int(np.argmax(err))
            ctx.track('output_err/(eps*(used+1)*sum|w|*S)', float(err[i]) / unit,
                      dict(ratio=case['ratio'], step=step, order=order, used=used, length=length))
            if float(err[i]) > C_OUT * unit:
                raise Violation('limit', '%s: output[%d, %d] = %r, L = %r, error %.3g exceeds '
                                '%g*eps*(used+1)*sum|w_exact|*S = %.3g'
                                % (tag, i, c, out[i, c], L, err[i], C_OUT, C_OUT * unit),
                                slot=i, column=c, library=out[i, c], oracle=L, sum_w=sum_w,
                                sequence=seq[:, c], steps=steps[:, c])

        # (4) error estimates
        if np.iscomplexobj(abserr) or not np.all(np.isfinite(abserr)) or np.any(abserr < 0):
            raise Violation('abserr', '%s: abserr is not a finite non-negative real array' % tag,
                            abserr=abserr)

        # (5) a length-1 sequence is returned unchanged
        if length == 1 and not np.array_equal(out, seq):
            raise Violation('unchanged', '%s: a length-1 sequence was changed' % tag, out=out, sequence=seq)

        # (6) columns independent
        if ncols > 1:
            for c in range(ncols):
                with ctx.lib('no-exception', tag + ' single column'):
                    o1, e1, _ = rich(seq[:, c:c + 1].copy(), steps[:, c:c + 1].copy())
                if not (np.array_equal(np.asarray(o1)[:, 0], out[:, c]) and
                        np.array_equal(np.asarray(e1)[:, 0], abserr[:, c])):
                    raise Violation('columns', '%s: column %d of a %d-column call differs from the '
                                    'single-column call' % (tag, c, ncols),
                                    multi=out[:, c], single=np.asarray(o1)[:, 0],
                                    multi_err=abserr[:, c], single_err=np.asarray(e1)[:, 0])

        # (7) one error estimate per output (last, so that every other clause was checked first)
        if abserr.shape != out.shape:
            raise Violation('abserr-count', '%s on a (%d, %d) sequence returned %d outputs but %d error '
                            'estimates' % (tag, length, ncols, out.shape[0], abserr.shape[0]),
                            out_shape=out.shape, abserr_shape=abserr.shape)

        if used >= 1:
            for col in cols:
                L = abs(_cx(col['L']))
                if any(abs(_cx(a)) * col['h0'] ** (order + step * j) > 1e-6 * L
                       for j, a in enumerate(col['a'][:used])):
                    ctx.nontriv(case)
                    break
        ctx.sample(dict(ratio=case['ratio'], step=step, order=order, num_terms=num_terms, used=used,
                        sequence=seq[:, 0], L=cols[0]['L'], library_out=out[:, 0],
                        library_rule=w_lib, exact_rule=[complex(v) if cplx_ratio else float(v)
                                                        for v in w_exact]))

    def finding_key(self, case, violation):
        return {'clause': violation.clause,
                'ratio': 'complex' if isinstance(case.get('ratio'), (list, tuple)) else 'real',
                'len1': case.get('length') == 1,
                'num_terms': case.get('num_terms')}


PROP = C07()
