"""C09 - results depend only on (function, point, configuration), not on history or threads.

A case is a whole *history*: a list of operations over a pool of configurations (construct, call,
set n / order / method and restore, share a step generator, clear / pre-populate the rule cache,
use other classes in between), or a multi-thread script.  Model: the record obtained from a fresh
evaluation (new objects, new generator, FD_RULES emptied) - in a pristine interpreter process for a
drawn fraction of the histories.  Invariant after every call: value, error_estimate, final_step,
index and f_value are bit-identical to the model's.
"""
import json
import os
import subprocess
import sys
import threading
import warnings

import numpy as np
from hypothesis import strategies as st

from nverif.engine import Prop, Violation, ROOT

REAL = ['central', 'forward', 'backward']
POINTS = [0.0, 0.37, -1.25, 3.0, -0.004, 41.5]
MPOINTS = [[0.3, -0.7], [1.5, 2.0], [-0.2, 0.05]]


def _f0(x):
    return ((0.5 * x - 1.25) * x + 2.0) * x + 0.75


def _f1(x):
    return (1.5 * x + 0.25) / (x * x + 2.0)


def _f2(x):
    return 0.75 * np.sqrt(x * x + 1.5) - 0.5 * x


def _g0(x):
    return (x[0] * x[0] + 1.5 * x[0] * x[1] - 0.25 * x[1] * x[1] * x[1]) / (x[0] * x[0] + 2.0)


def _g1(x):
    return np.sqrt(x[0] * x[0] + x[1] * x[1] + 1.0) + 0.5 * x[0] * x[1]


FUNS = {'f0': _f0, 'f1': _f1, 'f2': _f2, 'g0': _g0, 'g1': _g1}


def config_pool():
    pool = []
    for fi, fn in enumerate(['f0', 'f1', 'f2']):
        for method in ['central', 'forward', 'backward', 'complex', 'multicomplex']:
            for (n, order) in [(1, 2), (2, 2), (1, 4), (3, 3), (2, 6)]:
                if method == 'multicomplex' and n > 2:
                    continue
                if (fi + n + order + len(method)) % 3 == 0:      # thin the pool deterministically
                    continue
                for stepk in ['default', 'scalar', 'gen']:
                    if (fi + n + len(stepk) + order) % 2 == 0 and stepk != 'default':
                        continue
                    pool.append(dict(cls='Derivative', fun=fn, method=method, n=n, order=order, step=stepk))
    for fn in ['g0', 'g1']:
        for cls in ['Gradient', 'Hessian', 'Hessdiag', 'Jacobian']:
            for method in ['central', 'forward', 'complex']:
                pool.append(dict(cls=cls, fun=fn, method=method, n=None, order=2, step='default'))
    return pool


POOL = config_pool()
N_DERIV = sum(1 for c in POOL if c['cls'] == 'Derivative')


def make_generator(nd, cfg):
    """A fresh generator equal to the one an object of configuration ``cfg`` owns: the explicit one of
    'gen' configurations, or the one the constructor creates itself (Derivative._step_generator)."""
    cstep = cfg['method'] in ('complex', 'multicomplex')
    if cfg['step'] == 'gen':
        if cstep:
            return nd.MinStepGenerator(num_extrap=3)
        return nd.MaxStepGenerator(base_step=1.0, num_steps=12)
    if cfg['step'] == 'scalar':
        return nd.MinStepGenerator(base_step=0.0078125, step_nom=1.0)
    if cfg['step'] == 'short':      # the 'scalar' steps cut down to a two-row difference table
        return nd.MinStepGenerator(base_step=0.0078125, step_nom=1.0, num_steps=cfg['num_steps'])
    if cfg['step'] == 'near':       # the 'scalar' steps with a step ratio 2e-4 above the default one
        return nd.MinStepGenerator(base_step=0.0078125, step_nom=1.0,
                                   step_ratio=cfg['ratio'])
    if cstep:
        return nd.MinStepGenerator(base_step=None)
    return nd.MaxStepGenerator()


def construct(nd, cfg, shared_gen=None):
    f = FUNS[cfg['fun']]
    cls = getattr(nd, cfg['cls'])
    kw = dict(method=cfg['method'], full_output=True)
    if cfg['cls'] == 'Derivative':
        kw.update(n=cfg['n'], order=cfg['order'])
    elif cfg['cls'] != 'Hessian':
        kw.update(order=cfg['order'])
    if shared_gen is not None:
        kw['step'] = shared_gen
    elif cfg['step'] == 'scalar':
        kw['step'] = 0.0078125
    elif cfg['step'] in ('gen', 'near', 'short'):
        kw['step'] = make_generator(nd, cfg)
    return cls(f, **kw)


def record_of(out):
    val, info = out
    return [np.asarray(val), np.asarray(info.error_estimate), np.asarray(info.final_step),
            np.asarray(info.index), np.asarray(info.f_value)]


def same_record(a, b):
    for u, v in zip(a, b):
        if u.shape != v.shape or u.dtype != v.dtype or not np.array_equal(u, v, equal_nan=True):
            return False
    return True


def rec_json(r):
    out = []
    for a in r:
        a = np.asarray(a)
        if np.iscomplexobj(a):
            out.append(dict(shape=list(a.shape), dtype=str(a.dtype), re=[float(v).hex() for v in a.real.ravel()],
                            im=[float(v).hex() for v in a.imag.ravel()]))
        elif a.dtype.kind in 'iu':
            out.append(dict(shape=list(a.shape), dtype=str(a.dtype), i=[int(v) for v in a.ravel()]))
        else:
            out.append(dict(shape=list(a.shape), dtype=str(a.dtype), re=[float(v).hex() for v in a.ravel()]))
    return out


def point_of(cfg, xid):
    if cfg['cls'] == 'Derivative':
        return POINTS[xid % len(POINTS)]
    return MPOINTS[xid % len(MPOINTS)]


def fresh_eval(cfg, xid, gen_of=None):
    """Model: new object, new generator, rule cache emptied."""
    import numdifftools as nd
    from numdifftools import finite_difference as fd
    fd.FD_RULES.clear()
    gen = make_generator(nd, gen_of) if gen_of is not None else None
    obj = construct(nd, cfg, gen)
    with warnings.catch_warnings():
        warnings.simplefilter('ignore')
        with np.errstate(all='ignore'):
            return record_of(obj(point_of(cfg, xid)))


def fresh_interpreter_eval(requests):
    """Evaluate each request in its own pristine interpreter; returns list of rec_json."""
    code = ('import sys, json, warnings\n'
            'from nverif.props import c09\n'
            'req = json.loads(sys.argv[1])\n'
            'r = c09.fresh_eval(req["cfg"], req["xid"], req.get("gen_of"))\n'
            'print("RESULT" + json.dumps(c09.rec_json(r)))\n')
    out = []
    env = dict(os.environ)
    for req in requests:
        p = subprocess.run([sys.executable, '-c', code, json.dumps(req)], env=env, cwd=ROOT,
                           capture_output=True, text=True)
        line = [l for l in p.stdout.splitlines() if l.startswith('RESULT')]
        if p.returncode != 0 or not line:
            raise RuntimeError('fresh interpreter failed: %s' % p.stderr[-500:])
        out.append(json.loads(line[0][6:]))
    return out


# --------------------------------------------------------------------------------------
# strategies
# --------------------------------------------------------------------------------------

@st.composite
def history_case(draw):
    nops = draw(st.integers(2, 12))
    ops = []
    for _ in range(nops):
        kind = draw(st.sampled_from(['construct', 'construct', 'call', 'call', 'call', 'call', 'set_n',
                                     'set_order', 'set_method', 'share', 'clear', 'prepopulate', 'other', 'twin']))
        op = dict(op=kind, a=draw(st.integers(0, 999)), b=draw(st.integers(0, 999)),
                  c=draw(st.integers(0, 999)))
        ops.append(op)
    return dict(kind='history', ops=ops, fresh=draw(st.integers(0, 39)) == 0)


# configurations of the sibling cases: (method, n, order, number of steps that leaves exactly two
# rows in the difference table)
SIBLINGS = [('central', 1, 2, 2), ('central', 2, 2, 2), ('central', 1, 4, 3), ('forward', 1, 2, 3),
            ('backward', 1, 2, 3), ('forward', 2, 2, 4), ('forward', 1, 1, 2), ('complex', 1, 2, 2)]


@st.composite
def sibling_case(draw):
    """Two objects that differ only in the number of steps (two difference rows vs the full
    sequence; same step ratio, method order and requested number of Richardson terms), called one
    after the other: the second result must be what a pristine interpreter returns."""
    method, n, order, k = draw(st.sampled_from(SIBLINGS))
    return dict(kind='sibling', fun=draw(st.sampled_from(['f0', 'f1', 'f2'])), method=method, n=n, order=order,
                num_steps=k + draw(st.sampled_from([0, 0, 1])), xid=draw(st.integers(0, 5)),
                short_first=draw(st.sampled_from([True, True, False])), repeat=draw(st.integers(1, 2)))


@st.composite
def thread_case(draw):
    T = draw(st.sampled_from([2, 4, 8, 16]))
    scripts = []
    hot = draw(st.integers(0, len(POOL) - 1))
    for _ in range(T):
        k = draw(st.integers(1, 4))
        scripts.append([[draw(st.sampled_from([hot, hot, draw(st.integers(0, len(POOL) - 1))])),
                         draw(st.integers(0, 5))] for _ in range(k)])
    return dict(kind='threads', T=T, scripts=scripts)


class C09(Prop):
    id = 'C09'
    title = 'Results depend only on (function, point, configuration), not on history'
    rule = ('Histories: Hypothesis draws 2..12 operations from {construct, call at x, set n / order / '
            'real-step method then call then restore then call, construct with a step-generator instance '
            'shared with another object, clear the rule cache, pre-populate it with unrelated '
            'configurations, use Gradient/Hessian/Hessdiag/Jacobian objects in between, use two objects whose step '
            'ratios differ by 2e-4 one after the other} over a pool of '
            '%d configurations x 6 points (exactly rounded test functions).  After every call the full '
            'record (value, error_estimate, final_step, index, f_value) must be bit-identical to a fresh '
            'evaluation (new object, new generator, cache emptied); for 1 history in 40 the fresh evaluation '
            'is done in a pristine interpreter process per call.  A history is NON-TRIVIAL iff some call '
            'happens on an object (or generator) that was previously used with a different x, n, order or '
            'method while the cache was warm for its key.  Threads: 2..16 threads own disjoint objects, '
            'start at a barrier with switch interval 1e-6 s and an emptied cache, repeated; non-trivial iff '
            '>= 2 threads use the same configuration (same cache key).' % len(POOL))
    assumptions = ('bitwise comparison is meaningful because the test functions use only + - * / sqrt',
                   'thread schedules are stressed (barrier + tiny switch interval), not controlled: the '
                   'thread part is exploration at a weaker level than the history part')
    constants = {'thread_repetitions': {'quick': 20, 'thorough': 100}}
    examples = {'quick': 60, 'thorough': 500}

    def strategy(self, tier):
        return st.one_of(history_case(), history_case(), history_case(), history_case(), history_case(),
                         history_case(), thread_case(), thread_case(), sibling_case())

    # ------------------------------------------------------------------------------
    def check(self, case, ctx):
        if case['kind'] == 'threads':
            return self._check_threads(case, ctx)
        if case['kind'] == 'sibling':
            return self._check_sibling(case, ctx)
        return self._check_history(case, ctx)

    def _check_sibling(self, case, ctx):
        import numdifftools as nd
        from numdifftools import finite_difference as fd
        base = dict(cls='Derivative', fun=case['fun'], method=case['method'], n=case['n'], order=case['order'])
        short = dict(base, step='short', num_steps=case['num_steps'])
        full = dict(base, step='scalar')
        seq = [short, full] if case['short_first'] else [full, short]
        seq = seq * case['repeat']
        xid = case['xid']
        fd.FD_RULES.clear()
        model_cache = {}
        with warnings.catch_warnings():
            warnings.simplefilter('ignore')
            for i, cfg in enumerate(seq):
                with ctx.lib('no-exception', 'sibling call %s' % cfg):
                    with np.errstate(all='ignore'):
                        got = record_of(construct(nd, cfg)(point_of(cfg, xid)))
                if i == 0:
                    continue
                # the reference comes from a pristine interpreter: process-wide state this check does
                # not know about cannot leak into it
                self._compare(got, self._model(cfg, xid, None, model_cache, True),
                              'call #%d (%s steps) after a sibling with %s' % (
                                  i, 'two-row' if cfg['step'] == 'short' else 'all', seq[i - 1]['step']))
        ctx.count('op=sibling (%s first)' % ('short' if case['short_first'] else 'full'))
        ctx.nontriv(dict(sibling=[case['fun'], case['method'], case['n'], case['order'], case['num_steps'], xid,
                                  case['short_first']]))

    def _model(self, cfg, xid, gen_of, cache, fresh_proc):
        key = json.dumps([cfg, xid, gen_of], sort_keys=True)
        if key not in cache:
            if fresh_proc:
                cache[key] = ('json', fresh_interpreter_eval([dict(cfg=cfg, xid=xid, gen_of=gen_of)])[0])
            else:
                cache[key] = ('rec', fresh_eval(cfg, xid, gen_of))
        return cache[key]

    def _compare(self, got, model, what):
        kind, m = model
        ok = (rec_json(got) == m) if kind == 'json' else same_record(got, m)
        if not ok:
            mj = m if kind == 'json' else rec_json(m)
            raise Violation('history-independence', '%s differs from the fresh evaluation' % what,
                            got=rec_json(got), model=mj)

    def _check_history(self, case, ctx):
        import numdifftools as nd
        from numdifftools import finite_difference as fd
        fresh_proc = bool(case.get('fresh'))
        # model values first (fresh evaluations); the history then starts from an emptied cache too
        model_cache = {}
        objs = []           # dict(obj, cfg, gen_of, used=set of (x, n, order, method), gen_key)
        gens_used = {}      # id(generator) -> set of usages
        nontrivial = False
        calls = 0
        plan = []
        fd.FD_RULES.clear()
        with warnings.catch_warnings():
            warnings.simplefilter('ignore')
            queue = list(case['ops'])
            while queue:
                op = queue.pop(0)
                kind = op['op']
                if kind in ('construct', 'share') or (not objs and kind in ('call', 'set_n', 'set_order',
                                                                            'set_method')):
                    cfg = dict(POOL[op['a'] % len(POOL)])
                    gen_of = None
                    shared = None
                    if kind == 'share':
                        # any object may lend its generator instance (the explicit one or the one its
                        # constructor created) to an object of any class of the same step family
                        donors = list(objs)
                        cfg = dict(POOL[op['a'] % len(POOL)])
                        if donors:
                            donor = donors[op['b'] % len(donors)]
                            cstep_d = donor['cfg']['method'] in ('complex', 'multicomplex')
                            cstep_c = cfg['method'] in ('complex', 'multicomplex')
                            if cstep_d == cstep_c:
                                shared = donor['obj'].step
                                gen_of = donor['gen_of'] or donor['cfg']
                                cfg['step'] = 'shared'
                    with ctx.lib('no-exception', 'constructing %s' % cfg):
                        obj = construct(nd, cfg, shared)
                    objs.append(dict(obj=obj, cfg=cfg, gen_of=gen_of if shared is not None else None,
                                     used=set()))
                    ctx.count('op=%s' % ('share' if shared is not None else 'construct'))
                    if shared is not None:
                        # use the lender, then the borrower, right away (same point or another one)
                        di = objs.index(donor)
                        queue[0:0] = [dict(op='call', a=di, b=op['c'], c=0, exact_index=True),
                                      dict(op='call', a=len(objs) - 1, b=op['c'] + (op['b'] % 2), c=0,
                                           exact_index=True)]
                    if kind in ('construct', 'share'):
                        continue
                if kind == 'twin':
                    # two objects that differ only in a step ratio 2e-4 apart (same steps otherwise),
                    # used one after the other at the same point: neither may see the other's rules
                    base = dict(POOL[op['a'] % N_DERIV])
                    twins = [dict(base, step='scalar'),
                             dict(base, step='near', ratio=2.0004 if base['n'] == 1 else 1.6003)]
                    if op['c'] % 2:
                        twins.reverse()
                    for c2 in twins:
                        with ctx.lib('no-exception', 'constructing %s' % c2):
                            objs.append(dict(obj=construct(nd, c2), cfg=c2, gen_of=None, used=set()))
                    queue[0:0] = [dict(op='call', a=len(objs) - 2, b=op['b'], c=0, exact_index=True),
                                  dict(op='call', a=len(objs) - 1, b=op['b'], c=0, exact_index=True)]
                    ctx.count('op=twin (step ratios 2e-4 apart)')
                    continue
                if kind == 'clear':
                    fd.FD_RULES.clear()
                    ctx.count('op=clear')
                    continue
                if kind == 'prepopulate':
                    for j in range(3):
                        c2 = POOL[(op['a'] + 7 * j) % len(POOL)]
                        construct(nd, c2)(point_of(c2, op['b'] + j))
                    ctx.count('op=prepopulate')
                    continue
                if kind == 'other':
                    c2 = POOL[N_DERIV + op['a'] % (len(POOL) - N_DERIV)]
                    got = record_of(construct(nd, c2)(point_of(c2, op['b'])))
                    self._compare(got, self._model(c2, op['b'] % 6, None, model_cache, False),
                                  'call of %s in between' % c2['cls'])
                    fd_warm = True
                    ctx.count('op=other-class')
                    continue
                o = objs[op['a'] if op.get('exact_index') else op['a'] % len(objs)]
                cfg, obj = o['cfg'], o['obj']
                xid = op['b'] % 6

                def do_call(cfg_now, label):
                    nonlocal nontrivial, calls
                    usage = (xid, cfg_now.get('n'), cfg_now.get('order'), cfg_now['method'])
                    gid = id(obj.step)
                    prior = o['used'] | gens_used.get(gid, set())
                    key_warm = len(fd.FD_RULES) > 0
                    if key_warm and any(u != usage for u in prior):
                        nontrivial = True
                    with ctx.lib('no-exception', '%s call %s' % (label, cfg_now)):
                        with np.errstate(all='ignore'):
                            got = record_of(obj(point_of(cfg_now, xid)))
                    o['used'].add(usage)
                    gens_used.setdefault(gid, set()).add(usage)
                    # the model must not disturb the history's cache state: save / restore it
                    saved = dict(fd.FD_RULES)
                    model = self._model(cfg_now, xid, o['gen_of'], model_cache, fresh_proc)
                    fd.FD_RULES.clear()
                    fd.FD_RULES.update(saved)
                    self._compare(got, model, '%s of %s at x#%d' % (label, cfg_now, xid))
                    calls += 1
                if kind == 'call' or cfg['cls'] != 'Derivative':
                    do_call(cfg, 'call')
                    ctx.count('op=call')
                    continue
                # setters: change, call, restore, call
                mod = dict(cfg)
                if kind == 'set_n':
                    nmax = 2 if cfg['method'] == 'multicomplex' else 5
                    mod['n'] = op['c'] % (nmax + 1)          # includes n = 0
                    obj.n = mod['n']
                elif kind == 'set_order':
                    mod['order'] = 1 + (op['c'] % 8)
                    obj.order = mod['order']
                elif kind == 'set_method':
                    if cfg['method'] not in REAL:
                        do_call(cfg, 'call')
                        continue
                    mod['method'] = REAL[op['c'] % 3]
                    obj.method = mod['method']
                ctx.count('op=%s' % kind)
                if op['c'] % 2 == 0:
                    do_call(mod, 'call after %s' % kind)
                obj.n, obj.order, obj.method = cfg['n'], cfg['order'], cfg['method']
                do_call(cfg, 'call after %s and restore' % kind)
        if calls == 0:
            ctx.skip('history without a call')
        if fresh_proc:
            ctx.count('model from pristine interpreter processes')
        if nontrivial:
            ctx.nontriv(case)
        ctx.sample(dict(kind='history', ops=[o['op'] for o in case['ops']], calls=calls,
                        fresh_interpreter=fresh_proc))

    def _check_threads(self, case, ctx):
        import numdifftools as nd
        from numdifftools import finite_difference as fd
        reps = self.constants['thread_repetitions']['thorough' if ctx.tier == 'thorough' else 'quick']
        scripts = case['scripts']
        model_cache = {}
        models = [[self._model(POOL[c], x % 6, None, model_cache, False) for c, x in s] for s in scripts]
        old = sys.getswitchinterval()
        sys.setswitchinterval(1e-6)
        failures = []
        try:
            with warnings.catch_warnings():
                warnings.simplefilter('ignore')
                for rep in range(reps):
                    fd.FD_RULES.clear()
                    objs = [[construct(nd, POOL[c]) for c, x in s] for s in scripts]
                    barrier = threading.Barrier(len(scripts))
                    results = [None] * len(scripts)
                    errors = []

                    def worker(t):
                        try:
                            barrier.wait()
                            out = []
                            with np.errstate(all='ignore'):
                                for (c, x), obj in zip(scripts[t], objs[t]):
                                    out.append(record_of(obj(point_of(POOL[c], x))))
                            results[t] = out
                        except Exception as exc:       # noqa
                            errors.append((t, repr(exc)))
                    threads = [threading.Thread(target=worker, args=(t,)) for t in range(len(scripts))]
                    for th in threads:
                        th.start()
                    for th in threads:
                        th.join()
                    if errors:
                        failures.append('repetition %d: thread %d raised %s' % (rep, errors[0][0], errors[0][1]))
                        break
                    for t, out in enumerate(results):
                        for k, got in enumerate(out):
                            if not same_record(got, models[t][k][1]):
                                failures.append('repetition %d thread %d call %d (%s) differs from the '
                                                'sequential fresh evaluation' % (rep, t, k, POOL[scripts[t][k][0]]))
                    if failures:
                        break
        finally:
            sys.setswitchinterval(old)
        if failures:
            raise Violation('thread-independence', failures[0], T=case['T'])
        ctx.count('threads=%d' % case['T'])
        used = [c for s in scripts for c, x in s]
        if len(set(used)) < len(used):
            ctx.nontriv(case)
        ctx.sample(dict(kind='threads', T=case['T'], calls=len(used), repetitions=reps))

    def finding_key(self, case, v):
        return {'clause': v.clause, 'kind': case.get('kind') if case else None,
                'exception': v.details.get('exception')}


PROP = C09()
