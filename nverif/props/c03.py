"""C03 - Jacobian, Gradient, directionaldiff: right entries and shapes for any R^n -> R^m.

Programs and the exact Jacobian come from nverif.oracle.multivar (affine / quadratic / ridge programs,
60-digit chain rule).  Every ridge argument is certified analytic on the disc the step configuration can
reach; steps are scaled into that disc when the drawn configuration does not fit (DESIGN 3.1 / 3.2).

Clauses
  shape      Jacobian: (m, n) for a length-m vector, (m, n, k) for an (m, k) matrix (for a 0-d output only
             size == n is asserted); Gradient: (n,) = flattened x, 0-d for a single element
  finite     no NaN/inf (all sample points are inside the certified domain)
  affine     |J - A|_ej <= 256 eps (sum_l |A_el x_l| + |b_e| + |A_ej| h_max) / h_min   (difference rules)
                       <= 4 eps |A_ej|                     (complex order 2, multicomplex: no difference)
  envelope   |J - exact|_ej <= tol[method|1|k-bucket] * S_1(e, j) + floor,
             floor = 64 eps (|exact| + (n+2) (cond + noise_e / h_f) + 2 M_e(h_f) / h_f)   (h_f = reported final_step,
             clamped into the generated range; the 1/h_f terms only for difference-forming rules)
             (constants.json: C03_tol['method|1|k-bucket|default-order2, default-order4 or user'], else C03_tol / C01_tol
             ['method|1|k-bucket']; missing key or null = weak cell)
  extrapolated-order   |J - exact|_ej <= C_X[method] * T + C_XR * R + floor, T + R = the Richardson-aware unit of
             multivar.extrapolated_unit (documented leading order p and spacing s restated there; U_x = truncation
             terms of order >= 1 + p + s t of the majorant series at the window heads + rounding at the window
             tails, times sum |rule weights| * sum |Richardson weights|, t = min(2, k_est - 1)); asserted for the
             short geometric user sequences (step kind 'geo': k_est 3..8, largest step 10^U(-2,-0.3) of the
             certified reach) and the default configuration of central / forward / backward
  grad-row   Gradient(f)(x) == squeeze(Jacobian(f)(x.ravel())) (same configuration), bitwise
  direction  |directionaldiff - grad.v/|v|| <= K_DIR (est_dir + sum_j |v_j| est_j / |v|) + floor, asserted when
             both configurations leave >= 2 derivative estimates and reach <= rho_cert/4 (single-estimate error
             estimates carry no information: DESIGN C02 / F10)
"""
import json
import math
import os
import warnings

import numpy as np
from hypothesis import strategies as st

from nverif.engine import Prop, Violation
from nverif.oracle import multivar as mv
from nverif.props.c04 import tanh_over_300

EPS = 2.0 ** -52
CALIBRATE = bool(os.environ.get('NVERIF_CALIBRATE'))
FLOOR = 64.0
AFFINE_REAL = 4096.0
AFFINE_CSTEP = 64.0
K_DIR = 1e5
# extrapolated-order clause: |err| <= C_X[method] * T + C_XR * R + floor, (T, R) = truncation and rounding parts of
# U_x (U_basic if k_est = 1); asserted for the short geometric user sequences (step kind 'geo') of every method and
# for the default configuration of the real-step methods.  Worst err/T over truncation-dominated entries (thorough
# seed 0, 127 000 cases): central 0.008, complex 0.019, multicomplex (order 2) 3e-4, forward 6.4, backward 27.5;
# worst err/R over rounding-dominated entries 1.04e3.
C_X = {'central': 3.0, 'complex': 3.0, 'multicomplex': 3.0, 'forward': 100.0, 'backward': 500.0}
C_XR = 3e4
ASYMPTOTIC = 1e-2     # the extrapolated order is asserted only when T_p(w h_max) <= ASYMPTOTIC * S_1
ASSUME_KNOWN = bool(os.environ.get('NVERIF_ASSUME_KNOWN'))     # development aid only, never set by ./check
OVERFLOW = 1e150
METHODS = ['central', 'forward', 'backward', 'complex', 'multicomplex']
GRIDS = [(1, 2), (2, 1), (2, 2), (2, 3), (3, 2), (2, 4), (4, 2), (1, 5), (3, 1)]
CONST_PATH = os.path.join(os.path.dirname(os.path.dirname(os.path.abspath(__file__))), 'constants.json')
KINDS = ('affine', 'affine', 'quadratic', 'ridge', 'ridge', 'ridge')

# Proposal for constants.json:"C03_tol" (NOT in force until copied there; calibrated on 8 quick seeds = 5e4
# cases, verified quiet with it on the 8 seeds): default configurations 1e-6 (worst ratio <= 3.2e-12), except the
# default complex rule of order 4 (single estimate, h ~ 5e-4: worst 0.13 -> weak); user step configurations only
# with >= 8 estimates (1e-2); everything else weak.
PROPOSED_C03_TOL = {
    'backward|1|k1|user': None, 'backward|1|k2-3|user': None, 'backward|1|k4-7|user': None,
    'backward|1|k8+|default-order2': 1e-06, 'backward|1|k8+|default-order4': 1e-06,
    'backward|1|k8+|user': 0.01, 'central|1|k1|user': None, 'central|1|k2-3|user': None,
    'central|1|k4-7|user': None, 'central|1|k8+|default-order2': 1e-06, 'central|1|k8+|default-order4': 1e-06,
    'central|1|k8+|user': 0.01, 'complex|1|k1|default-order2': 1e-06, 'complex|1|k1|default-order4': None,
    'complex|1|k1|user': None, 'complex|1|k2-3|user': None, 'complex|1|k4-7|user': None,
    'complex|1|k8+|user': 0.01, 'forward|1|k1|user': None, 'forward|1|k2-3|user': None,
    'forward|1|k4-7|user': None, 'forward|1|k8+|default-order2': 1e-06, 'forward|1|k8+|default-order4': 1e-06,
    'forward|1|k8+|user': 0.01, 'multicomplex|1|k1|default-order2': 1e-06, 'multicomplex|1|k1|user': None,
    'multicomplex|1|k2-3|default-order4': 1e-06, 'multicomplex|1|k2-3|user': None,
    'multicomplex|1|k4-7|user': None, 'multicomplex|1|k8+|user': 0.01,
}


def load_table():
    path = os.environ.get('NVERIF_CONSTANTS', CONST_PATH)
    try:
        with open(path) as fh:
            consts = json.load(fh)
    except Exception:
        return {}
    table = dict(consts.get('C01_tol') or {})
    table.update(consts.get('C03_tol') or {})
    return table


@st.composite
def c03_case(draw):
    api = draw(st.sampled_from(['jacobian'] * 3 + ['gradient', 'directional']))
    method = draw(st.sampled_from(METHODS))
    order = draw(st.sampled_from([2, 4]))
    grid = None
    if api == 'jacobian':
        base = draw(mv.mv_cases(kinds=KINDS, int_x=True))
        forms = ['list', 'array', 'array'] + (['column'] if base['prog']['container'] != 'mat' else [])
        xform = draw(st.sampled_from(forms))
    else:
        xform = draw(st.sampled_from(['list', 'array', 'grid', 'gridF']))
        if xform in ('grid', 'gridF'):
            grid = list(draw(st.sampled_from(GRIDS)))
            base = draw(mv.mv_cases(n=grid[0] * grid[1], containers=('0d',), kinds=KINDS, int_x=True))
        else:
            base = draw(mv.mv_cases(containers=('0d',), kinds=KINDS, int_x=True))
    case = dict(base, api=api, method=method, order=order, xform=xform, grid=grid,
                step=draw(mv.step_specs(method, kinds=mv.GEO_KINDS_CSTEP if method in ('complex', 'multicomplex')
                                       else mv.GEO_KINDS)), full_output=True)
    if api == 'directional':
        n = base['prog']['n']
        v = [draw(mv.coefs(-1.0, 1.0)) if draw(st.integers(0, 3)) else 0.0 for _ in range(n)]
        if not any(v):
            v[draw(st.integers(0, n - 1))] = draw(mv.coefs(-1.0, 1.0))
        # vectors of very different lengths, including nearly (but not exactly) unit length: "any
        # non-zero v" must be normalised whatever its length is
        vkind = draw(st.sampled_from(['as drawn', 'as drawn', 'scaled', 'nearly unit', 'unit']))
        norm = math.sqrt(sum(c * c for c in v))
        if vkind == 'scaled':
            f = 10.0 ** draw(st.floats(-6.0, 6.0))
            v = [c * f for c in v]
        elif vkind in ('nearly unit', 'unit'):
            f = 1.0 + (draw(st.sampled_from([-1.0, 1.0])) * 10.0 ** draw(st.floats(-12.0, -3.0))
                       if vkind == 'nearly unit' else 0.0)
            v = [c / norm * f for c in v]
        case['v'] = v
        case['vkind'] = vkind
    return case


def difference_forming(method, order):
    """True if the first-derivative rule subtracts nearly equal function values."""
    if method == 'multicomplex':
        return False
    if method == 'complex':
        return order >= 4
    return True


def c_x(method, xcfg):
    """C_X of the extrapolated-order clause, or None where it is not asserted."""
    if xcfg == 'geo' or (xcfg == 'default' and method in ('central', 'forward', 'backward')):
        return C_X.get(method)
    return None


def stencil_width(method):
    return 2.0 if method == 'multicomplex' else 1.0


def builder(nd, cls, f, case, full_output, **extra):
    """build(scale) for mv.fit_steps: the object of the case with all steps multiplied by scale."""
    def build(scale, base):
        step, opts = mv.make_step(nd, case['step'], case['method'], scale, base)
        kw = dict(method=case['method'], order=case['order'], full_output=full_output)
        kw.update(extra)
        kw.update(opts)
        return mv.geo_fixup(cls(f, step=step, **kw), case['step'])
    return build


def shape_x(case, x):
    xf = case['xform']
    if case.get('x_int') and xf in ('list', 'array'):      # Python ints / an int64 array
        return [int(v) for v in x] if xf == 'list' else np.array(x, dtype=np.int64)
    if xf == 'list':
        return [float(v) for v in x]
    if xf == 'array':
        return np.array(x, dtype=float)
    if xf == 'column':
        return np.array(x, dtype=float).reshape(-1, 1)
    if xf == 'gridF':        # same logical 2-d array, Fortran memory order
        return np.asfortranarray(np.array(x, dtype=float).reshape(case['grid']))
    return np.array(x, dtype=float).reshape(case['grid'])


class C03(Prop):
    id = 'C03'
    title = 'Jacobian, Gradient, directionaldiff: right entries and shapes for any R^n -> R^m'
    rule = ('Hypothesis draws a program f: R^n -> R^m (n 1..8, m 1..6) from nverif.oracle.multivar: affine '
            'A x + b with dense asymmetric A, quadratic, or ridge programs sum c*g(a.x + b0) (products of two '
            'ridge factors, optional affine/quadratic parts; g an expression tree over the C01 operation '
            'set), an output container (0-d, length-1, length-m, (m, k) with k 1..4 and mixed columns), '
            'x_l = +-10^U(-3, 2) passed as list / 1-d array / column vector (Jacobian) / n1 x n2 array in C or Fortran memory order '
            '(Gradient, directionaldiff), method (all five), order in {2, 4}, a step configuration (default, '
            'Min/MaxStepGenerator options, scalar) scaled so that stencil-width * h_max * ||a||_1 <= rho_cert/2 '
            'for every ridge factor, and for directionaldiff a non-zero v (non-unit, mixed signs, zeros).  '
            'Exact Jacobian by the chain rule from 60-digit jets.  NON-TRIVIAL iff at least one entry has '
            'bound <= |exact|/2 (a sign error or factor 2 would be flagged) and, for Jacobian, a swapped axis '
            'is visible (elements != n, or k > 1, or the exact matrix differs from its transpose by more '
            'than the bounds); distinct by (program, x, api, method, order, step, x form).')
    assumptions = (
        'mpmath 60-digit jets and chain rule are exact to < 1e-30 relative (cross-checked against mpmath.diff '
        'on an independent closure)',
        'ball-arithmetic analyticity certificate is conservative',
        'tolerances: constants.json C01_tol (n = 1 cells) / C03_tol per (method, k-bucket), missing cell = weak '
        '(shape and finiteness only); affine bounds 256 eps (difference rules) and 4 eps (complex order 2, '
        'multicomplex); K_DIR for the directional relation',
    )
    examples = {'quick': 400, 'thorough': 8000}

    def __init__(self):
        self.table = load_table()
        self.constants = {'FLOOR_eps_multiple': FLOOR, 'AFFINE_REAL_eps_multiple': AFFINE_REAL,
                          'AFFINE_CSTEP_eps_multiple': AFFINE_CSTEP, 'K_DIR': K_DIR, 'C_X': dict(C_X), 'C_XR': C_XR,
                          'tol_table': 'nverif/constants.json:C01_tol (n=1) overridden by C03_tol',
                          'tol_cells_in_force': {k: v for k, v in self.table.items() if '|1|' in k}}

    def strategy(self, tier):
        return c03_case()

    # ------------------------------------------------------------------------------------
    def _configure(self, ctx, nd, cls, f, case, x_arr, an, full_output, width, what):
        with ctx.lib('no-exception', 'constructing %s' % what):
            res = mv.fit_steps(builder(nd, cls, f, case, full_output), x_arr, an.reach_limit(), width,
                               case['step'].get('u', 0.0), frac=mv.geo_frac(case['step']))
        if isinstance(res, str):
            ctx.skip(res)
        d, steps, ratio, scale, base = res
        self._base = base
        self._ratio = ratio
        if an.max_majorant(width * max(float(np.max(t)) for t in steps)) > OVERFLOW:
            ctx.skip('function values exceed 1e150 on the sampled region (overflow)')
        rule_len = int(np.size(d.fd_rule.rule(ratio)))
        k_est = len(steps) - rule_len + 1
        if k_est < 1:
            ctx.skip('fewer steps than the rule needs (misuse, see C11)')
        return d, steps, k_est, scale

    def _entries(self, ctx, case, an, lib, exact, steps, k_est, d, what, fstep=None):
        """Compare canonical (elements, n) arrays; returns (sensitive, bounds array)."""
        method, order = case['method'], case['order']
        n = an.n
        w = stencil_width(method)
        affine = mv.is_affine(case['prog'])
        diff_forming = difference_forming(method, d.order)
        bucket = mv.kbucket(k_est)
        cfg = 'default-order%d' % order if case['step']['kind'] == 'default' else 'user'
        tol = self.table.get('%s|1|%s|%s' % (method, bucket, cfg), self.table.get('%s|1|%s' % (method, bucket)))
        hs = np.array([np.ravel(s) for s in steps])            # steps x n
        amp_rule = max(1.0, float(np.sum(np.abs(d.fd_rule.rule(self._ratio)))))
        hmin, hmax = hs.min(axis=0), hs.max(axis=0)
        bounds = np.full(exact.shape, np.inf)
        sensitive = False
        if not np.all(np.isfinite(lib)):
            raise Violation('finite', '%s contains non-finite entries (every sample point is inside the '
                            'certified domain)' % what, lib=lib)
        if np.iscomplexobj(lib) and np.any(np.imag(lib) != 0):
            raise Violation('real', '%s is complex for a real function' % what)
        lib = np.real(lib)
        for e in range(exact.shape[0]):
            for j in range(n):
                err = abs(lib[e, j] - exact[e, j])
                if affine:
                    aej = an.abs_affine(e, j)
                    if diff_forming:
                        unit = EPS * (an.abs_affine(e) + aej * hmax[j]) / hmin[j]
                        name, const = 'affine_real', AFFINE_REAL
                    else:
                        unit = EPS * aej
                        name, const = 'affine_cstep', AFFINE_CSTEP
                    ratio = err / unit if unit > 0 else (0.0 if err == 0 else math.inf)
                    ctx.track('%s err/unit|%s|order=%d' % (name, method, order), ratio,
                              dict(x=case['x'], e=e, j=j, lib=lib[e, j], exact=exact[e, j],
                                   step=case['step'], container=case['prog']['container']))
                    bounds[e, j] = const * unit
                    if ratio > const and not CALIBRATE:
                        raise Violation('affine', '%s[%d,%d]=%r, exact %r: |err|=%.3g > %g*unit(%.3g) for an '
                                        'affine map (method=%s order=%d)' % (what, e, j, lib[e, j], exact[e, j],
                                                                           err, const, unit, method, order),
                                        e=e, j=j, ratio=ratio)
                    continue
                r0 = w * hmin[j]
                r1 = w * hmax[j] if diff_forming else math.inf
                S = an.scale(1, e, (j,), r0, r1)
                if S is None or not math.isfinite(S):
                    ctx.count('scale unavailable')
                    continue
                # the step the library reports having used, clamped into the generated range (a wrong
                # record can only make the floor smaller than the worst case h_min)
                hf = hmin[j]
                if fstep is not None and math.isfinite(fstep[e, j]):
                    hf = min(max(fstep[e, j], hmin[j]), hmax[j])
                floor = FLOOR * EPS * (abs(exact[e, j]) + (n + 2) * (
                    an.cond(e, (j,)) + (an.noise(e) / hf if diff_forming else 0.0)))
                if diff_forming and fstep is not None:
                    # rounding of the function values at the reported step: eps * |values| / h_f (when every
                    # sample rounds to the same float the library legitimately returns 0 +- 0, C02 (a))
                    Mf = float(an.majorant(e, (j,), [min(w * hf, an.reach_limit((j,)), mv.R_CAP)])[0])
                    # the reported step is the largest of the t+1 steps a Richardson-extrapolated estimate combines
                    hft = max(hf / max(float(abs(self._ratio)), 1.0) ** max(0, min(2, k_est - 1)), hmin[j])
                    if math.isfinite(Mf):
                        floor += FLOOR * EPS * 2.0 * Mf / hft
                excess = max(err - floor, 0.0)
                ratio = excess / S if S > 0 else (0.0 if excess == 0 else math.inf)
                ctx.track('err/S|%s|1|%s|%s' % (method, bucket, cfg), ratio,
                          dict(prog=mv.describe(case['prog']), x=case['x'], e=e, j=j, order=order,
                               step=case['step'], lib=lib[e, j], exact=exact[e, j], S=S))
                if k_est >= 2:
                    ux = mv.extrapolated_unit(an, 'Jacobian', method, order, e, (j,), [hs[:, j]], k_est, self._ratio, w,
                                              diff_forming, amp_rule)
                    if ux is not None and ux[0] > 0 and math.isfinite(ux[0]):
                        U, which, t, Tp, Rp, Tmax = ux
                        asymptotic = Tmax <= ASYMPTOTIC * S
                        xcfg = 'geo' if case['step']['kind'] == 'geo' else 'default' if cfg != 'user' else 'user'
                        xlabel = '%s|%s%s' % (method, xcfg, '|mcx-order>=4' if method == 'multicomplex' and order >= 4 else '')
                        summ = dict(prog=mv.describe(case['prog']), x=case['x'], e=e, j=j, order=order, step=case['step'],
                                    lib=lib[e, j], exact=exact[e, j], U=U, T=Tp, R=Rp, unit=which, k_est=k_est)
                        # truncation- and rounding-dominated windows are calibrated separately (extrapolating estimates
                        # that differ only by rounding noise amplifies the noise)
                        if Tp >= Rp:
                            ctx.track('x-order err/T (T>=R)|%s' % xlabel, excess / Tp, summ)
                        else:
                            ctx.track('x-order err/R (R>T)|%s' % xlabel, excess / Rp, summ)
                        cx = c_x(method, xcfg) if asymptotic else None
                        if not asymptotic:
                            ctx.count('x-order not asserted: sequence not asymptotic (T_p(h_max) > 1e-2 S_1)')
                        if cx is not None and not CALIBRATE:
                            if xcfg == 'geo':
                                ctx.count('x-order asserted on a short geometric user sequence|%s' % method)
                            bx = cx * Tp + C_XR * Rp
                            bounds[e, j] = bx + floor
                            if excess > bx:
                                raise Violation('extrapolated-order', '%s[%d,%d]=%r exact %r: |err|=%.3g > C_X(%g)*T(%.3g)+C_XR(%g)*'
                                                'R(%.3g) [%s unit, t=%d, k_est=%d] + floor(%.3g) (method=%s order=%d)'
                                                % (what, e, j, lib[e, j], exact[e, j], err, cx, Tp, C_XR, Rp, which, t, k_est,
                                                   floor, method, order), e=e, j=j, ratio=excess / bx, k_est=k_est)
                if tol is None or CALIBRATE:
                    continue
                bounds[e, j] = min(bounds[e, j], tol * S + floor)
                if ratio > tol:
                    raise Violation('envelope', '%s[%d,%d]=%r exact %r: |err|=%.3g > tol(%g)*S_1(%.3g)+floor(%.3g) '
                                    '(method=%s order=%d)' % (what, e, j, lib[e, j], exact[e, j], err, tol, S,
                                                              floor, method, order),
                                    e=e, j=j, ratio=ratio, bucket=bucket)
        if not affine and tol is None:
            ctx.count('weak cell (no envelope): %s|1|%s|%s' % (method, bucket, cfg))
        with np.errstate(invalid='ignore'):
            sensitive = bool(np.any(bounds <= np.abs(exact) / 2))
        return sensitive, bounds

    # ------------------------------------------------------------------------------------
    def check(self, case, ctx):
        try:
            self._check(case, ctx)
        except Violation as v:
            if ASSUME_KNOWN and case['method'] == 'multicomplex' and v.clause in ('finite', 'envelope') \
                    and self.finding_key(case, v).get('tanh_arg_over_300'):
                ctx.skip('dev switch: reported class Bicomplex tanh overflow (F11)')
            if ASSUME_KNOWN and v.clause == 'extrapolated-order' and case['method'] == 'multicomplex' \
                    and case['order'] >= 4:
                ctx.skip('dev switch: reported class multicomplex with order >= 4 (Richardson assumes h^order)')
            raise

    def _check(self, case, ctx):
        import numdifftools as nd
        prog, x, api = case['prog'], case['x'], case['api']
        method, order = case['method'], case['order']
        n = prog['n']
        try:
            an = mv.MVAnalysis(prog, x)
        except mv.MVDomainError as exc:
            ctx.skip('point outside the certified domain of a ridge factor')
        if an.min_rho() <= 1e-7 * max(1.0, max(abs(v) for v in x)):
            ctx.skip('certified radius below 1e-7*|x|')
        x_in = shape_x(case, x)
        w = stencil_width(method)
        ctx.count('api=%s' % api)
        ctx.count('method=%s|order=%d' % (method, order))
        ctx.count('kind=%s' % case['kind'])
        ctx.count('xform=%s' % case['xform'])
        ctx.count('step=%s' % case['step']['kind'])
        with warnings.catch_warnings():
            warnings.simplefilter('ignore')
            with np.errstate(all='ignore'):
                if api == 'jacobian':
                    self._jacobian(ctx, nd, case, an, x_in, w)
                elif api == 'gradient':
                    self._gradient(ctx, nd, case, an, x_in, w)
                else:
                    self._directional(ctx, nd, case, an, x_in, w)

    def _key(self, case):
        return dict(p=case['prog'], x=case['x'], a=case['api'], m=case['method'], o=case['order'],
                    s=case['step'], f=case['xform'], v=case.get('v'))

    def _jacobian(self, ctx, nd, case, an, x_in, w):
        prog, method, order = case['prog'], case['method'], case['order']
        n = an.n
        f = mv.MVFunction(prog)
        x_arr = np.atleast_1d(np.asarray(x_in, dtype=float))
        what = 'Jacobian(method=%s, order=%d)' % (method, order)
        d, steps, k_est, scale = self._configure(ctx, nd, nd.Jacobian, f, case, x_arr, an,
                                                 case['full_output'], w, what)
        with ctx.lib('no-exception', '%s(x %s) for a %s output' % (what, case['xform'], prog['container'])):
            out = d(x_in)
        lib = out[0] if case['full_output'] else out
        lib = np.asarray(lib)
        fx = np.asarray(f(x_arr))
        ctx.count('container=%s' % prog['container'])
        ctx.count('f(x).shape=%s' % (fx.shape,))
        if scale != 1.0:
            ctx.count('steps scaled into the certified disc')
        if fx.ndim == 0:
            if lib.size != n:
                raise Violation('shape', 'Jacobian of a scalar function of %d variables has %d entries '
                                '(shape %s)' % (n, lib.size, lib.shape), shape=list(lib.shape))
            canon = lib.reshape(1, n)
        elif fx.ndim == 1:
            want = (fx.shape[0], n)
            if lib.shape != want:
                raise Violation('shape', 'Jacobian shape %s for a length-%d output of %d variables, expected %s'
                                % (lib.shape, fx.shape[0], n, want), shape=list(lib.shape))
            canon = lib
            if fx.shape[0] == 1:
                ctx.count('m=1 vector output')
        else:
            want = (fx.shape[0], n, fx.shape[1])
            if lib.shape != want:
                raise Violation('shape', 'Jacobian shape %s for a %s output of %d variables, expected %s'
                                % (lib.shape, fx.shape, n, want), shape=list(lib.shape))
            canon = lib.transpose(0, 2, 1).reshape(fx.shape[0] * fx.shape[1], n)
        Jex = an.jacobian()
        if Jex.ndim == 3:
            Jex = Jex.transpose(0, 2, 1).reshape(-1, n)
        if canon.shape != Jex.shape:
            raise Violation('shape', 'Jacobian has %s entries per variable, the function has %d output elements'
                            % (canon.shape[0], Jex.shape[0]))
        fstep = None
        if case['full_output']:
            try:
                fs = np.abs(np.asarray(out[1].final_step, dtype=float)).reshape(lib.shape)
                fstep = fs.reshape(1, n) if fx.ndim == 0 else fs if fx.ndim == 1 else \
                    fs.transpose(0, 2, 1).reshape(-1, n)
            except Exception:
                fstep = None
        sensitive, bounds = self._entries(ctx, case, an, canon, Jex, steps, k_est, d, 'J', fstep)
        E = Jex.shape[0]
        visible = E != n or len(prog['B']) > 1
        if not visible:
            with np.errstate(invalid='ignore'):
                visible = bool(np.any(np.abs(Jex - Jex.T) > bounds + bounds.T))
        if sensitive and visible:
            ctx.nontriv(self._key(case))
            ctx.count('nontrivial|jacobian|%s' % method)
        ctx.sample(dict(api='jacobian', prog=mv.describe(prog), x=case['x'], xform=case['xform'], method=method,
                        order=order, step=case['step'], lib=lib, exact=an.jacobian(), k_est=k_est, scale=scale))

    def _gradient(self, ctx, nd, case, an, x_in, w):
        prog, method, order = case['prog'], case['method'], case['order']
        n = an.n
        f = mv.MVFunction(prog)
        x_flat = np.atleast_1d(np.asarray(x_in, dtype=float)).ravel()
        what = 'Gradient(method=%s, order=%d)' % (method, order)
        d, steps, k_est, scale = self._configure(ctx, nd, nd.Gradient, f, case, x_flat, an,
                                                 case['full_output'], w, what)
        with ctx.lib('no-exception', '%s(x %s)' % (what, case['xform'])):
            out = d(x_in)
        lib = np.asarray(out[0] if case['full_output'] else out)
        want = () if n == 1 else (n,)
        if lib.shape != want:
            raise Violation('grad-shape', 'Gradient shape %s for x of shape %s, expected %s'
                            % (lib.shape, np.shape(x_in), want), shape=list(lib.shape))
        if case['full_output']:
            est = np.asarray(out[1].error_estimate)
            if est.size != n:
                raise Violation('grad-shape', 'error_estimate has %d entries for %d variables' % (est.size, n))
        Jex = an.jacobian().reshape(1, n)
        fstep = None
        if case['full_output']:
            try:
                fstep = np.abs(np.asarray(out[1].final_step, dtype=float)).reshape(1, n)
            except Exception:
                fstep = None
        sensitive, _ = self._entries(ctx, case, an, lib.reshape(1, n), Jex, steps, k_est, d, 'grad', fstep)
        # the single Jacobian row, same configuration
        dj = builder(nd, nd.Jacobian, f, case, False)(scale, self._base)
        with ctx.lib('no-exception', 'Jacobian of the scalar function'):
            jac = np.asarray(dj(x_flat))
        if not np.array_equal(np.squeeze(jac), lib, equal_nan=True):
            raise Violation('grad-row', 'Gradient differs from the Jacobian row: %r vs %r' % (lib, jac))
        if sensitive:
            ctx.nontriv(self._key(case))
            ctx.count('nontrivial|gradient|%s' % method)
        ctx.sample(dict(api='gradient', prog=mv.describe(prog), x=case['x'], xform=case['xform'], method=method,
                        order=order, lib=lib, exact=Jex[0], k_est=k_est))

    def _directional(self, ctx, nd, case, an, x_in, w):
        prog, method, order = case['prog'], case['method'], case['order']
        n = an.n
        grid = case['grid'] if case['xform'] in ('grid', 'gridF') else None
        f_dir = mv.MVFunction(prog, grid=grid)
        f_flat = mv.MVFunction(prog)
        x_arr = np.asarray(x_in, dtype=float)
        v = np.array(case['v'], dtype=float)
        v_in = v.reshape(x_arr.shape)
        if case['xform'] == 'list':
            v_in = [float(t) for t in v]
        vnorm = float(np.linalg.norm(v))
        unit = v / vnorm
        # configuration of the line derivative: Derivative(t -> f(x + t u))(0); offsets |t| * |u_l| <= |t|
        made_holder = {}

        def build(scale, base):
            step, opts = mv.make_step(nd, case['step'], method, scale, base)
            made_holder['kw'] = dict(step=step, method=method, order=order, **opts)
            return mv.geo_fixup(nd.Derivative(lambda t: 0.0, n=1, **made_holder['kw']), case['step'])
        with ctx.lib('no-exception', 'constructing Derivative for directionaldiff'):
            res = mv.fit_steps(build, np.asarray(0.0), an.reach_limit(), w, case['step'].get('u', 0.0),
                               frac=mv.geo_frac(case['step']))
        if isinstance(res, str):
            ctx.skip(res)
        d0, steps0, ratio0, scale0, _base0 = res
        if an.max_majorant(w * max(float(np.max(t)) for t in steps0)) > OVERFLOW:
            ctx.skip('function values exceed 1e150 on the sampled region (overflow)')
        k0 = len(steps0) - int(np.size(d0.fd_rule.rule(ratio0))) + 1
        if k0 < 1:
            ctx.skip('fewer steps than the rule needs (misuse, see C11)')
        with ctx.lib('no-exception', 'directionaldiff(method=%s, order=%d, x %s)' % (method, order, case['xform'])):
            dd, info = nd.directionaldiff(f_dir, x_in, v_in, full_output=True, **made_holder['kw'])
        if np.ndim(dd) != 0 and np.size(dd) != 1:
            raise Violation('dir-shape', 'directionaldiff returned shape %s' % (np.shape(dd),))
        dd = float(np.real(np.ravel(dd)[0]))
        est_dir = float(np.ravel(np.abs(info.error_estimate))[0])
        if not math.isfinite(dd):
            raise Violation('finite', 'directionaldiff is %r' % dd)
        x_flat = x_arr.ravel()
        what = 'Gradient(method=%s, order=%d)' % (method, order)
        g, steps, k_est, scale = self._configure(ctx, nd, nd.Gradient, f_flat, case, x_flat, an, True, w, what)
        with ctx.lib('no-exception', what):
            grad, ginfo = g(x_flat)
        grad = np.atleast_1d(np.real(np.asarray(grad, dtype=complex))).ravel()
        est = np.atleast_1d(np.abs(np.asarray(ginfo.error_estimate))).ravel()
        if grad.size != n or est.size != n or not np.all(np.isfinite(grad)):
            raise Violation('grad-shape', 'Gradient with full_output: value size %d, estimate size %d, n=%d'
                            % (grad.size, est.size, n))
        rel = float(np.dot(grad, unit))
        est_sum = est_dir + float(np.dot(np.abs(unit), est))
        Jex = an.jacobian().reshape(n)
        exact = float(np.dot(Jex, unit))
        mag = float(np.dot(np.abs(Jex), np.abs(unit)))
        hmin0 = min(float(np.min(s)) for s in steps0)
        hmin = min(float(np.min(s)) for s in steps)
        diff_forming = difference_forming(method, order)
        condv = float(sum(abs(unit[j]) * an.cond(0, (j,)) for j in range(n)))
        floor = FLOOR * EPS * (mag + (n + 2) * (condv + (an.noise(0) / min(hmin0, hmin) if diff_forming else 0.0)))
        if diff_forming:
            # rounding of the function values at the steps the library reports having used (0 +- 0 is a
            # legitimate answer when every sample rounds to the same float, C02 (a))
            def clamp(fs, lo, hi):
                return lo if not math.isfinite(fs) else min(max(fs, lo), hi)
            try:
                fs0 = float(np.ravel(np.abs(info.final_step))[0])
            except Exception:
                fs0 = math.nan
            hf0 = clamp(fs0, hmin0, max(float(np.max(t)) for t in steps0))
            M0 = float(an.majorant(0, tuple(range(n)), [min(w * hf0, an.reach_limit(), mv.R_CAP)])[0])
            extra = 2.0 * M0 / hf0 if math.isfinite(M0) else 0.0
            try:
                fsg = np.ravel(np.abs(np.asarray(ginfo.final_step, dtype=float)))
            except Exception:
                fsg = np.full(n, math.nan)
            hsg = np.array([np.ravel(t) for t in steps])
            for j in range(n):
                hf = clamp(float(fsg[j]) if fsg.size == n else math.nan, hsg[:, j].min(), hsg[:, j].max())
                Mj = float(an.majorant(0, (j,), [min(w * hf, an.reach_limit((j,)), mv.R_CAP)])[0])
                if math.isfinite(Mj):
                    extra += abs(unit[j]) * 2.0 * Mj / hf
            floor += FLOOR * EPS * extra
        else:
            # complex-step rules: relative rounding of the imaginary parts of the intermediates, eps * S_1
            extra = an.scale(1, 0, tuple(range(n)), w * hmin0, math.inf) or 0.0
            hsg = np.array([np.ravel(t) for t in steps])
            for j in range(n):
                extra += abs(unit[j]) * (an.scale(1, 0, (j,), w * hsg[:, j].min(), math.inf) or 0.0)
            if math.isfinite(extra):
                floor += FLOOR * EPS * extra
        diff = abs(dd - rel)
        excess = max(diff - floor, 0.0)
        ratio = excess / est_sum if est_sum > 0 else (0.0 if excess == 0 else math.inf)
        kmin = min(k0, k_est)
        reach = w * max(max(float(np.max(t)) for t in steps0), max(float(np.max(t)) for t in steps))
        informative = kmin >= 2 and reach <= an.reach_limit() / 2.0
        ctx.track('dir |dd-grad.u|/(est_dir+sum|u_j|est_j)|%s|%s' % (
            method, 'k>=2, reach<=rho/4' if informative else 'single estimate or reach>rho/4 (not asserted)'), ratio,
                  dict(prog=mv.describe(prog), x=case['x'], v=case['v'], order=order, step=case['step'],
                       dd=dd, grad_dot_u=rel, exact=exact, est_dir=est_dir, est_sum=est_sum))
        if not informative:
            ctx.count('direction relation not asserted: single-estimate configuration or reach > rho/4 (C02/F10)')
        if informative and ratio > K_DIR and not CALIBRATE:
            raise Violation('direction', 'directionaldiff=%r but Gradient.v/|v|=%r (exact %r): |diff|=%.3g > '
                            'K(%g)*(est %.3g) + floor(%.3g), method=%s order=%d' % (dd, rel, exact, diff, K_DIR,
                                                                                 est_sum, floor, method, order),
                            ratio=ratio)
        if informative and K_DIR * est_sum + floor <= abs(exact) / 2 and abs(vnorm - 1.0) > 0.05:
            ctx.nontriv(self._key(case))
            ctx.count('nontrivial|directional|%s' % method)
        ctx.sample(dict(api='directional', prog=mv.describe(prog), x=case['x'], v=case['v'], method=method,
                        order=order, lib=dd, grad_dot_u=rel, exact=exact, est=est_sum))

    def finding_key(self, case, v):
        if case is None:
            return {'clause': v.clause}
        tanh_big = False
        try:
            an = mv.MVAnalysis(case['prog'], case['x'], K=4)
            ops, tanh_big = an.ops(), tanh_over_300(case['prog'], an)
        except Exception:
            ops = []
        return {'clause': v.clause, 'api': case['api'], 'method': case['method'], 'order': case['order'],
                'kind': case['kind'], 'container': case['prog']['container'], 'xform': case['xform'],
                'm': len(case['prog']['comps']), 'n': case['prog']['n'], 'ops': ops, 'tanh_arg_over_300': tanh_big,
                'step_kind': case['step']['kind'], 'exception': v.details.get('exception'),
                'where': v.details.get('where')}


PROP = C03()
