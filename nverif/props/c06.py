"""C06 - finite-difference rules are exact to their stated order and match Richardson.

Oracle: the library's own difference quotient ``LogRule(n, method, order).diff`` is *called with
80-digit mpmath numbers* on monomials t**k at x0 = 0 (and, for drawn cases, on a random polynomial
around a random x0), so the only roundings are the float weights ``rule(step_ratio)`` and the float
constant ``_SQRT_J`` - both part of the object under test.  Everything else (moments, the moment
matrix and its condition number, n!, the documented method order) is computed here.
"""
from math import factorial

import mpmath
import math
import numpy as np
from hypothesis import strategies as st

from nverif.engine import Prop, Violation

EPS = 2.0 ** -52
DPS = 80
C_EXACT = 400.0      # clause (i): C_EXACT * eps * kappa(V) * sum_j |w_j D_kj|  (worst seen 28)
C_ZERO = 64.0        # "E_k == 0":  |E_k| <= C_ZERO * eps * sum_j |w_j| c h_j**k
KAPPA_MAX = 1e12     # "numerically non-singular"
PRESENT = 1e-40      # |D_k(h=1)| above this: the power k is present in the quotient (80 digits)

METHODS = ('central', 'forward', 'backward', 'complex')
GRID_RATIOS = (1.2, 1.6, 2.0, 3.0, 4.0, 7.5, 10.0)


def spacing(method, n, order):
    """Documented spacing of the error powers (independent restatement)."""
    if method in ('forward', 'backward'):
        return 1
    if method == 'central':
        return 2
    return 2 if (n == 1 and order < 4) else 4


def documented_method_order(method, n, order):
    s = spacing(method, n, order)
    return max(s * (order // s), s)


@st.composite
def rule_case(draw):
    # One 8-byte draw for (method, n, order) and the ratio.  st.integers / st.floats return their
    # bounds ~20 % of the time, and Hypothesis mutates examples by copying same-label draws onto
    # each other; both would produce many duplicates of one configuration.
    bits = int.from_bytes(draw(st.binary(min_size=8, max_size=8)), 'big')
    idx = (bits >> 48) % 400
    method, n, order = METHODS[idx // 100], (idx // 10) % 10 + 1, idx % 10 + 1
    lo, hi = 1.05, (10.0 if draw(st.booleans()) else 2.5)
    u = ((bits & (2 ** 48 - 1)) + 1) / 2.0 ** 48          # uniform on (0, 1]
    ratio = min(max(lo + (hi - lo) * u, 1.0500000000000003), hi)
    x0 = draw(st.sampled_from([0.0, 1.0, -0.75])) if draw(st.booleans()) else draw(st.floats(-3.0, 3.0))
    # one draw for all coefficients (digits in base 19): Hypothesis mutates examples by copying
    # same-label draws onto each other, which would produce many duplicates of one configuration
    code = draw(st.integers(0, 19 ** (n + order) - 1))
    coefs = []
    for _ in range(n + order):
        code, dgt = divmod(code, 19)
        coefs.append(float(dgt - 9))
    return dict(method=method, n=n, order=order, ratio=ratio, src='random', x0=x0, coefs=coefs)


def _num(v):
    """Scalar returned by a difference quotient -> mpf (the quotients return real numbers)."""
    if isinstance(v, np.ndarray):
        v = v.item()
    if isinstance(v, mpmath.mpc):
        if v.imag != 0:
            raise TypeError('difference quotient returned a non-real number')
        v = v.real
    return mpmath.mpf(v)


class C06(Prop):
    id = 'C06'
    title = 'Finite-difference rules are exact to their stated order and match Richardson'
    rule = ('Exhaustive grid {central, forward, backward, complex} x n 1..10 x order 1..10 x '
            'step_ratio {1.2, 1.6, 2, 3, 4, 7.5, 10} (2800 configurations, both tiers) plus Hypothesis '
            'draws of (method, n, order) with step_ratio in U(1.05, 10] / U(1.05, 2.5], a random x0 and '
            'a random integer-coefficient polynomial of degree < n + method_order. Non-trivial = '
            'kappa(V) <= 1e12 and len(rule) >= 2; distinct by (method, n, order, step_ratio).')
    assumptions = (
        'mpmath at 80 digits is exact for the purpose of a 1e-14 comparison; the library quotient '
        'rule.diff is trusted to be called as the library calls it (diff(f, f(x0), x0, h))',
        'steps are h_j = r^(-j) with r = (step_ratio + 1.0) - 1.0, the ratio rule() builds its '
        'weights for (make_exact); E_k = sum_j w_j diff(t^k)(h_j) is the first output of '
        'LogRule._apply for h_0 = 1 (normalisation checked against _apply)',
        'a power k is "present" in a quotient when |diff(t^k)(1)| > 1e-40; c = max_k |diff(t^k)(1)| '
        '(1, 2, 6 or 24) is the measured magnitude of the present moments',
        'the complex-step quotients multiply by the float _SQRT_J = a(1+1j), a = fl(1/sqrt 2): '
        '_SQRT_J**2 = 2a^2 j differs from 1j by ~1e-16 in modulus (not in direction), so present '
        'moments carry a relative perturbation ~k*1e-16 (covered by clause (i)\'s tolerance) and '
        '"E_k = 0" in the structure clause means |E_k| <= C_ZERO*eps*sum_j |w_j| c h_j^k',
        'clause (i) is asserted only when the 2-norm condition number of the moment matrix '
        'V_ji = diff(t^k_i)(h_j)/k_i! (first len(rule) present powers) is <= 1e12; tolerance '
        'C_EXACT*eps*kappa(V)*sum_j|w_j D_kj|; constants calibrated >= 10x above the worst ratio '
        'over 8 quick seeds (see worst_ratios)')
    constants = {'C_EXACT': C_EXACT, 'C_ZERO': C_ZERO, 'KAPPA_MAX': KAPPA_MAX, 'digits': DPS}
    examples = {'quick': 250, 'thorough': 3750}

    def strategy(self, tier):
        return rule_case()

    def enumerate(self, tier):
        for method in METHODS:
            for n in range(1, 11):
                for order in range(1, 11):
                    for ratio in GRID_RATIOS:
                        yield dict(method=method, n=n, order=order, ratio=ratio, src='grid')

    # ------------------------------------------------------------------------------------
    def check(self, case, ctx):
        with mpmath.workdps(DPS):
            self._check(case, ctx)

    def _check(self, case, ctx):
        from numdifftools.finite_difference import LogRule
        import numdifftools as nd
        mpf = mpmath.mpf
        method, n, order, ratio = case['method'], case['n'], case['order'], float(case['ratio'])
        tag = "LogRule(n=%d, method=%r, order=%d)" % (n, method, order)
        with ctx.lib('no-exception', tag):
            lr = LogRule(n=n, method=method, order=order)
            w = np.asarray(lr.rule(ratio))
            mo = lr.method_order
            rs = lr.richardson_step
            diff = lr.diff
            dname = getattr(diff, '__name__', str(diff))
        ctx.count('method=%s' % method)
        ctx.count('src=%s' % case.get('src'))
        ctx.count('configs:%s' % dname)

        # ---- (iii) method order and spacing as documented -------------------------------
        s_doc = spacing(method, n, order)
        mo_doc = documented_method_order(method, n, order)
        if not (isinstance(mo, (int, np.integer)) and isinstance(rs, (int, np.integer))):
            raise Violation('method-order', '%s: method_order %r / richardson_step %r are not integers'
                            % (tag, mo, rs))
        mo, rs = int(mo), int(rs)
        if mo != mo_doc:
            raise Violation('method-order', '%s.method_order = %d, documented max(s*(order//s), s) = %d '
                            'with spacing s = %d' % (tag, mo, mo_doc, s_doc), library=mo, oracle=mo_doc)
        allowed = {'forward': (1,), 'backward': (1,), 'central': (2,), 'complex': (2, 4)}[method]
        if rs not in allowed:
            raise Violation('spacing', '%s.richardson_step = %d, documented %s' % (tag, rs, allowed))
        if order % s_doc == 0 and mo < order:
            raise Violation('method-order', '%s.method_order = %d < requested order' % (tag, mo))

        # ---- (iv) Derivative pairs the rule with Richardson(step=richardson_step, order=method_order)
        with ctx.lib('no-exception', 'Derivative(n=%d, method=%r, order=%d).set_richardson_rule' % (n, method, order)):
            d = nd.Derivative(np.exp, n=n, method=method, order=order)
            d.set_richardson_rule(ratio, 3)
            rich = d.richardson
            got = (rich.step, rich.order, rich.step_ratio, rich.num_terms)
        if got != (rs, mo, ratio, 3):
            raise Violation('richardson-pairing', 'Derivative(n=%d, method=%r, order=%d).set_richardson_rule'
                            '(%r, 3) installed Richardson(step=%r, order=%r, step_ratio=%r, num_terms=%r); '
                            'expected step=%d, order=%d' % (n, method, order, ratio, got[0], got[1], got[2],
                                                            got[3], rs, mo))

        # ---- weights -----------------------------------------------------------------------
        if w.ndim != 1 or w.size < 1 or w.dtype.kind != 'f' or not np.all(np.isfinite(w)):
            raise Violation('rule-shape', '%s.rule(%r) is not a finite real vector: %r' % (tag, ratio, w))
        m = int(w.size)
        r = (ratio + 1.0) - 1.0
        rm = mpf(r)
        hs = [rm ** (-j) for j in range(m)]
        wm = [mpf(float(v)) for v in w]
        kmax = n + mo + 4 * rs
        zero = mpf(0)

        def quotient(f, x0, h):
            return _num(diff(f, f(x0), x0, h))

        # moments at h = 1: which powers are present, and their magnitude c
        with ctx.lib('no-exception', '%s.diff on mpmath monomials' % tag):
            d1 = [quotient((lambda t, k=k: t ** k), zero, hs[0]) for k in range(kmax + 1)]
        present = [k for k in range(kmax + 1) if abs(d1[k]) > PRESENT]
        if not present:
            raise Violation('quotient', '%s.diff annihilates every monomial up to degree %d' % (tag, kmax))
        c = max(abs(v) for v in d1)
        with ctx.lib('no-exception', '%s.diff on mpmath monomials' % tag):
            D = {k: [d1[k]] + [quotient((lambda t, k=k: t ** k), zero, hs[j]) for j in range(1, m)]
                 for k in present}

        # moment matrix over the first m present powers
        kappa = float('inf')
        if len(present) >= m:
            V = np.array([[float(D[k][j] / factorial(k)) for k in present[:m]] for j in range(m)])
            if np.all(np.isfinite(V)):
                try:
                    kappa = float(np.linalg.cond(V, 2))
                except np.linalg.LinAlgError:
                    kappa = float('inf')
            if kappa != kappa:
                kappa = float('inf')
        regular = kappa <= KAPPA_MAX
        ctx.count('regular' if regular else 'singular(kappa>1e12)')
        ctx.count('%s:%s' % ('regular' if regular else 'singular', case.get('src')))
        ctx.count('len(rule)=%s' % (m if m < 6 else '6-9' if m < 10 else '10+'))
        summary = dict(method=method, n=n, order=order, ratio=ratio)

        E, scale_abs, scale_rel = {}, {}, {}
        for k in range(kmax + 1):
            scale_abs[k] = sum(abs(wm[j]) * c * hs[j] ** k for j in range(m))
            if k in D:
                E[k] = sum(wm[j] * D[k][j] for j in range(m))
                scale_rel[k] = sum(abs(wm[j] * D[k][j]) for j in range(m))
            else:
                E[k] = zero
                scale_rel[k] = zero

        # ---- (i) exactness below n + method_order -------------------------------------------
        if regular:
            for k in range(n + mo):
                target = factorial(n) if k == n else 0
                err = abs(E[k] - target)
                if k not in D:
                    if k == n:
                        raise Violation('exactness', '%s: the quotient %s does not contain the power t^n'
                                        % (tag, dname), k=k)
                    continue
                unit = EPS * kappa * scale_rel[k]
                ratio_k = float(err / unit) if unit > 0 else (0.0 if err == 0 else float('inf'))
                ctx.track('moment_err/(eps*kappa*sum|w D|)', ratio_k, dict(summary, k=k, kappa=kappa))
                if ratio_k > C_EXACT:
                    raise Violation('exactness',
                                    '%s.rule(%r) applied to %s of t^%d gives %s, exact %d; error %.3g of '
                                    'sum|w_j D_kj| = %.3g exceeds %g*eps*kappa(V) = %.3g (kappa %.3g)'
                                    % (tag, ratio, dname, k, mpmath.nstr(E[k], 17), target,
                                       float(err / scale_rel[k]), float(scale_rel[k]), C_EXACT,
                                       C_EXACT * EPS * kappa, kappa),
                                    k=k, library=float(E[k]), oracle=target, kappa=kappa, rule=w,
                                    sign_flip=bool(k == n and abs(E[k] + target) < abs(E[k] - target)))

        else:
            # numerically singular moment systems (kappa > 1e12): eps*kappa is no bound any more; what
            # is tracked (and asserted with the calibrated constant R_SING) is the error of each moment
            # relative to sum_j |w_j D_kj| itself
            for k in range(n + mo):
                if k not in D or scale_rel[k] == 0:
                    continue
                target = factorial(n) if k == n else 0
                rel = float(abs(E[k] - target) / scale_rel[k])
                ctx.track('moment_err/sum|w D| [kappa 1e%d..]' % int(min(math.floor(math.log10(kappa)), 20)) if kappa < float('inf') else 'moment_err/sum|w D| [kappa inf]', rel, dict(summary, k=k, kappa=kappa, m=m))

        # ---- (ii) only the powers the Richardson stage removes survive ----------------------
        for k in range(n + mo, kmax + 1):
            if (k - n - mo) % rs == 0:
                continue
            z = float(abs(E[k]) / (EPS * scale_abs[k]))
            ctx.track('forbidden_power/(eps*sum|w| c h^k)', z, dict(summary, k=k))
            if z > C_ZERO:
                raise Violation('error-structure',
                                '%s.rule(%r): error power h^%d (= method_order + %d) survives with '
                                'coefficient %s although richardson_step = %d, method_order = %d'
                                % (tag, ratio, k - n, k - n - mo, mpmath.nstr(E[k] / factorial(k), 8), rs, mo),
                                k=k, library=float(E[k]), richardson_step=rs, method_order=mo)
        lead = float(abs(E[n + mo]) / (EPS * scale_abs[n + mo]))
        if regular and lead > C_ZERO:
            ctx.count('lead-nonzero:%s' % dname)

        # ---- random polynomial around a random x0 (drawn cases) ---------------------------
        if regular and case.get('coefs') is not None:
            x0 = mpf(float(case['x0']))
            coefs = [mpf(float(v)) for v in case['coefs'][:n + mo]]
            coefs += [zero] * (n + 1 - len(coefs))

            def poly(t):
                s, acc = t - x0, zero
                for cf in reversed(coefs):
                    acc = acc * s + cf
                return acc
            with ctx.lib('no-exception', '%s.diff on an mpmath polynomial' % tag):
                val = sum(wm[j] * quotient(poly, x0, hs[j]) for j in range(m))
            exact = factorial(n) * coefs[n]
            scale = sum(abs(coefs[i]) * scale_rel[i] for i in range(len(coefs)))   # present powers only
            unit = EPS * kappa * scale
            if scale == 0:      # every coefficient of a present power is zero: nothing to compare
                ctx.count('polynomial-degenerate')
                unit = mpf(1)
                val = exact
            else:
                ctx.count('polynomial-checked')
            rp = float(abs(val - exact) / unit)
            ctx.track('poly_err/(eps*kappa*sum_i|c_i|sum_j|w_j D_ij|)', rp, dict(summary, x0=case['x0']))
            if rp > C_EXACT:
                raise Violation('polynomial', '%s.rule(%r) applied to %s of a degree-%d polynomial around '
                                'x0 = %r gives %s, exact %s (tolerance %g*eps*kappa = %.3g relative to %.3g)'
                                % (tag, ratio, dname, len(coefs) - 1, case['x0'], mpmath.nstr(val, 17),
                                   mpmath.nstr(exact, 17), C_EXACT, C_EXACT * EPS * kappa, float(scale)),
                                library=float(val), oracle=float(exact), kappa=kappa)

        if regular and m >= 2:
            ctx.nontriv(dict(method=method, n=n, order=order, ratio=ratio))
            ctx.record('log10_kappa', np.log10(max(kappa, 1.0)))
        if regular:
            ctx.sample(dict(summary, rule=w, method_order=mo, richardson_step=rs, kappa=kappa,
                            present_powers=present, E_n=float(E[n]), n_factorial=factorial(n),
                            E_lead=float(E[n + mo])))

    def finalize(self, merged, tier):
        out = []
        cls = merged['classes']
        for key, cnt in sorted(cls.items()):
            if key.startswith('configs:') and cnt > 0:
                name = key.split(':', 1)[1]
                if cls.get('lead-nonzero:%s' % name, 0) == 0:
                    out.append(Violation('lead-term', 'no regular configuration of the quotient %s has a '
                                         'non-zero error coefficient at h^method_order (%d configurations)'
                                         % (name, cnt), quotient=name))
        return out

    def finding_key(self, case, violation):
        key = {'clause': violation.clause}
        if case:
            key.update(method=case.get('method'), n=case.get('n'), order=case.get('order'),
                       n_mod_8=(case.get('n') or 0) % 8)
        return key


PROP = C06()
