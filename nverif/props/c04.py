"""C04 - Hessian is symmetric and correct; Hessdiag is its diagonal.

Scalar programs of n = 1..6 variables from nverif.oracle.multivar (pure quadratics; ridge programs
sum c*g(a.x+b0), products of two ridge factors, plus affine / quadratic parts), returned as a 0-d value or a
length-1 array, optionally made complex-valued (a*f + b) for the real-step methods.  Exact Hessian by the
chain / product rule from 60-digit jets.

Clauses
  shape       Hessian (n, n); Hessdiag (n,)
  symmetric   H == H.T bitwise
  finite      no NaN/inf
  quadratic   pure quadratics: |H - Q|_jk <= 256 eps sup|f on the reached box| / (hmin_j hmin_k)
              (multicomplex, which forms no difference: <= 64 eps |Q_jk|)
  envelope    |H - exact|_jk <= TOL_H[method|k-bucket] * S_2(j, k) + floor
  hd-quadratic / hd-envelope   the same for Hessdiag(method, order in {2, 4, 6}) with TOL_HD[method|k-bucket]
  extrapolated-order  |lib - exact| <= C_X[target|method] * T + C_XR * R + floor (Hessian and Hessdiag), T + R = the
              Richardson-aware unit U_x (U_basic if k_est = 1) of multivar.extrapolated_unit: documented leading order p and spacing s (restated
              there, never read from the library), U_x = truncation terms of total degree >= 2 + p + s t of the
              majorant series at the window heads + rounding at the window tails, times sum |rule weights| * sum
              |Richardson weights|, t = min(2, k_est - 1); asserted for the short geometric user sequences (step kind
              'geo': k_est 3..8, largest step 10^U(-2, -0.3) of the certified reach, dynamic range <= 1e4) and for
              the default configuration of the real-step methods
  consistency |diag(H) - Hessdiag|_j <= K_CONS (est_H_jj + est_diag_j) + floor, asserted when both
              configurations leave >= 2 estimates and reach <= rho_cert/4 (DESIGN C02 / F10)
floor = 64 eps (|exact| + (n+2) (cond + noise / (h_j h_k)) + 4 M(h_f) / (h_j h_k)) with h the reported final
steps clamped into the generated range (1/h^2 terms only for difference-forming rules).
"""
import math
import os
import warnings

import numpy as np
from hypothesis import strategies as st

from nverif.engine import Prop, Skip, Violation
from nverif.oracle import exprs
from nverif.oracle import multivar as mv

EPS = 2.0 ** -52
CALIBRATE = bool(os.environ.get('NVERIF_CALIBRATE'))
# development aid only (never set by ./check): count, instead of raising, violations of the already
# reported multicomplex precision-loss classes so that the rest of the search space can be explored
ASSUME_KNOWN = bool(os.environ.get('NVERIF_ASSUME_KNOWN'))
FLOOR = 64.0
QUAD_REAL = 4096.0
QUAD_MCX = 64.0
K_CONS = 1e6
# extrapolated-order clause: |err| <= C_X[target|method] * T + C_XR * R + floor, (T, R) = truncation and rounding parts
# of U_x (U_basic if k_est = 1); asserted for the short geometric user sequences (step kind 'geo') and for the default
# configuration of the real-step methods.  Worst err/T over truncation-dominated entries (thorough seed 0, 63 000
# cases): Hessian central 0.006, central2 0.010, complex 0.020, multicomplex 0.052, forward 0.13, backward 0.13;
# Hessdiag central 23.5, central2 0.52, complex 0.002, multicomplex (order 2) 0.018, forward 1.4, backward 1.5.
# Worst err/R over rounding-dominated entries: 10.6.
C_X = {'hessian|central': 3.0, 'hessian|central2': 3.0, 'hessian|complex': 3.0, 'hessian|multicomplex': 3.0,
       'hessian|forward': 3.0, 'hessian|backward': 3.0,
       'hessdiag|central': 500.0, 'hessdiag|central2': 10.0, 'hessdiag|complex': 3.0, 'hessdiag|multicomplex': 3.0,
       'hessdiag|forward': 30.0, 'hessdiag|backward': 30.0}
C_XR = 300.0
ASYMPTOTIC = 1e-2     # the extrapolated order is asserted only when T_p(w h_max) <= ASYMPTOTIC * S_2
OVERFLOW = 1e150
H_METHODS = ['central', 'central2', 'forward', 'backward', 'complex', 'multicomplex']
REAL_STEP = ('central', 'central2', 'forward', 'backward')
# tol[method|k-bucket|default or user step configuration] (k = number of derivative estimates left after the
# difference rule; for Hessian the number of generated steps).  Missing key / None = weak cell: shape, symmetry
# and finiteness only.  Default configurations: 1000 x the worst ratio of the 8-seed calibration rounded up to a
# power of ten, at least 1e-6, capped at 0.1 while that is >= 10 x the worst ratio, else weak.  User step
# configurations are heavy-tailed (the accuracy is the user's choice of steps, not a property of the library):
# asserted only with >= 8 estimates (tol >= 1e-2); fewer estimates = weak.
TOL_H = {
    'backward|k2-3|user': None, 'backward|k4-7|user': None, 'backward|k8+|default': 0.0001,
    'backward|k8+|user': 0.01, 'central2|k1|user': None, 'central2|k2-3|user': None,
    'central2|k4-7|user': None, 'central2|k8+|default': 1e-06, 'central2|k8+|user': 0.01,
    'central|k1|user': None, 'central|k2-3|user': None, 'central|k4-7|user': None,
    'central|k8+|default': 0.001, 'central|k8+|user': 0.01, 'complex|k1|default': None,
    'complex|k1|user': None, 'complex|k2-3|user': None, 'complex|k4-7|user': None, 'complex|k8+|user': 0.01,
    'forward|k2-3|user': None, 'forward|k4-7|user': None, 'forward|k8+|default': 0.001,
    'forward|k8+|user': 0.01, 'multicomplex|k1|default': 1e-06, 'multicomplex|k1|user': None,
    'multicomplex|k2-3|user': None, 'multicomplex|k4-7|user': None, 'multicomplex|k8+|user': 0.01,
}
TOL_HD = {
    'backward|k1|user': None, 'backward|k2-3|user': None, 'backward|k4-7|user': None,
    'backward|k8+|default': 0.001, 'backward|k8+|user': 0.01, 'central2|k1|user': None,
    'central2|k2-3|user': None, 'central2|k4-7|user': None, 'central2|k8+|default': 1e-06,
    'central2|k8+|user': 0.01, 'central|k1|user': None, 'central|k2-3|user': None, 'central|k4-7|user': None,
    'central|k8+|default': 1e-06, 'central|k8+|user': 0.01, 'complex|k1|default': None,
    'complex|k1|user': None, 'complex|k2-3|user': None, 'complex|k4-7|user': None, 'complex|k8+|user': 0.01,
    'forward|k1|user': None, 'forward|k2-3|user': None, 'forward|k4-7|user': None,
    'forward|k8+|default': 0.001, 'forward|k8+|user': 0.1, 'multicomplex|k1|default': 1e-06,
    'multicomplex|k1|user': None, 'multicomplex|k2-3|default': 1e-06, 'multicomplex|k2-3|user': None,
    'multicomplex|k4-7|user': None, 'multicomplex|k8+|user': 0.01,
}
KINDS = ('quadratic', 'ridge', 'ridge', 'ridge')
F9_OPS = ('arctan', 'arcsin', 'arccos')


def kinds_for(method):
    return mv.GEO_KINDS_CSTEP if method in ('complex', 'multicomplex') else mv.GEO_KINDS


@st.composite
def c04_case(draw):
    base = draw(mv.mv_cases(n=st.integers(1, 6), m=1, kinds=KINDS, containers=('0d', '0d', 'len1'), int_x=True))
    method = draw(st.sampled_from(H_METHODS))
    hd_method = draw(st.sampled_from([method, method] + H_METHODS))
    hd_order = draw(st.sampled_from([2, 4, 6]))
    wrap = None
    if method in REAL_STEP and hd_method in REAL_STEP and draw(st.integers(0, 4)) == 0:
        wrap = dict(a=[round(draw(st.floats(-2, 2)), 3), round(draw(st.floats(0.1, 2)), 3)],
                    b=[round(draw(st.floats(-2, 2)), 3), round(draw(st.floats(-2, 2)), 3)])
    return dict(base, method=method, hd_method=hd_method, hd_order=hd_order, wrap=wrap,
                step=draw(mv.step_specs(method, kinds=kinds_for(method))),
                hd_step=draw(mv.step_specs(hd_method, kinds=kinds_for(hd_method))),
                xform=draw(st.sampled_from(['list', 'array'])))


def hess_width(method):
    return 2.0


def hd_width(method):
    return 2.0 if method in ('central2', 'multicomplex') else 1.0


class C04(Prop):
    id = 'C04'
    title = 'Hessian is symmetric and correct; Hessdiag is its diagonal'
    rule = ('Hypothesis draws a scalar program of n = 1..6 variables from nverif.oracle.multivar: a pure '
            'quadratic b + A.x + x\'Qx/2 with pairwise different off-diagonal Q entries, or a ridge program '
            'sum c*g(a.x + b0) (g an expression tree over the C01 operation set, products of two ridge '
            'factors, optional affine and quadratic parts); the value is returned 0-d or as a length-1 array '
            'and, for the real-step methods, optionally as the complex value a*f + b; x_l = +-10^U(-3, 2) as '
            'list or array; Hessian method in {central, central2, forward, backward, complex, multicomplex}; '
            'Hessdiag method (same set) and order in {2, 4, 6}; step configurations (default, Min/Max'
            'StepGenerator with options, scalar) scaled so that 2 * h_max * ||a||_1 <= rho_cert/2 for every '
            'ridge factor.  Exact Hessian from 60-digit jets by the chain and product rules.  NON-TRIVIAL '
            'iff n >= 3, the exact off-diagonal entries differ pairwise by more than the bounds (a wrong '
            '(i, j) pairing is visible) and at least one off-diagonal bound is <= |exact|/2; distinct by '
            '(program, x, method, steps, wrapper).')
    assumptions = (
        'mpmath 60-digit jets and chain/product rules are exact to < 1e-30 relative (cross-checked against '
        'mpmath.diff on an independent closure)',
        'ball-arithmetic analyticity certificate is conservative',
        'TOL_H / TOL_HD per (method, k-bucket) calibrated >= 10x above the worst ratio over 8 seeds; None = weak cell '
        '(shape, symmetry, finiteness only)',
    )
    examples = {'quick': 250, 'thorough': 4000}

    def __init__(self):
        self.constants = {'FLOOR_eps_multiple': FLOOR, 'QUAD_REAL_eps_multiple': QUAD_REAL,
                          'QUAD_MCX_eps_multiple': QUAD_MCX, 'K_CONS': K_CONS, 'C_X': dict(C_X), 'C_XR': C_XR, 'TOL_H': dict(TOL_H),
                          'TOL_HD': dict(TOL_HD)}

    def strategy(self, tier):
        return c04_case()

    # ------------------------------------------------------------------------------------
    def check(self, case, ctx):
        try:
            self._check(case, ctx)
        except Violation as v:
            if ASSUME_KNOWN and (known_class(self.finding_key(case, v)) or mcx_order_class(self.finding_key(case, v))):
                raise Skip('dev switch: reported multicomplex precision-loss class')
            raise

    def _fit(self, ctx, nd, cls, f, case, spec, method, x_arr, an, width, what, **kw):
        def build(scale, base):
            step, opts = mv.make_step(nd, spec, method, scale, base)
            k = dict(method=method, full_output=True)
            k.update(kw)
            k.update(opts)
            return mv.geo_fixup(cls(f, step=step, **k), spec, hessian=cls is nd.Hessian)
        with ctx.lib('no-exception', 'constructing %s' % what):
            res = mv.fit_steps(build, x_arr, an.reach_limit(), width, spec.get('u', 0.0), frac=mv.geo_frac(spec))
        if isinstance(res, str):
            ctx.skip(res)
        if an.max_majorant(width * max(float(np.max(t)) for t in res[1])) > OVERFLOW:
            ctx.skip('function values exceed 1e150 on the sampled region (overflow)')
        return res

    def _check(self, case, ctx):
        import numdifftools as nd
        prog, x, method = case['prog'], case['x'], case['method']
        wrap = case.get('wrap')
        n = prog['n']
        try:
            an = mv.MVAnalysis(prog, x, wrap=wrap)
        except mv.MVDomainError:
            ctx.skip('point outside the certified domain of a ridge factor')
        if an.min_rho() <= 1e-7 * max(1.0, max(abs(v) for v in x)):
            ctx.skip('certified radius below 1e-7*|x|')
        self._kc = ''
        if 'multicomplex' in (method, case['hd_method']):
            probe = dict(clause='envelope', method='multicomplex', ops=an.ops(),
                         negative_real_part=an.negative_base(), tanh_arg_over_300=tanh_over_300(prog, an))
            if known_class(probe):
                self._kc = '|reported-class'
                ctx.count('multicomplex case in a reported precision-loss class')
        f = mv.MVFunction(prog, wrap=wrap)
        x_in = [float(v) for v in x] if case['xform'] == 'list' else np.array(x, dtype=float)
        if case.get('x_int'):                                  # Python ints / an int64 array
            x_in = [int(v) for v in x] if case['xform'] == 'list' else np.array(x, dtype=np.int64)
            ctx.count('integer x (%s)' % case['xform'])
        x_arr = np.array(x, dtype=float)
        quad = mv.is_polynomial(prog)
        ctx.count('method=%s' % method)
        ctx.count('kind=%s' % case['kind'])
        ctx.count('container=%s' % prog['container'])
        ctx.count('n=%d' % n)
        ctx.count('step=%s' % case['step']['kind'])
        if wrap is not None:
            ctx.count('complex-valued f')
        Hex = an.hessian()
        with warnings.catch_warnings():
            warnings.simplefilter('ignore')
            with np.errstate(all='ignore'):
                # ---------------- Hessian -------------------------------------------------
                what = 'Hessian(method=%s)' % method
                d, steps, ratio, scale, _b = self._fit(ctx, nd, nd.Hessian, f, case, case['step'], method,
                                                       x_arr, an, hess_width(method), what)
                with ctx.lib('no-exception', '%s(x) for a %s output%s' % (
                        what, prog['container'], ', complex-valued f' if wrap else '')):
                    H, info = d(x_in)
                H = np.asarray(H)
                if H.shape != (n, n):
                    raise Violation('shape', 'Hessian shape %s for n=%d' % (H.shape, n), target='hessian')
                if not np.array_equal(H, H.T, equal_nan=True):
                    raise Violation('symmetric', 'Hessian is not exactly symmetric', target='hessian', H=H)
                estH = np.abs(np.asarray(info.error_estimate))
                if estH.shape != (n, n):
                    raise Violation('shape', 'Hessian error_estimate shape %s' % (estH.shape,), target='hessian')
                if scale != 1.0:
                    ctx.count('steps scaled into the certified disc')
                hs = np.array([np.ravel(s) for s in steps])
                fsH = final_step(info, (n, n))
                self._aux = dict(cls='Hessian', order=None, ratio=ratio, amp=4.0)
                boundsH = self._compare(ctx, case, an, H, Hex, hs, method, None, len(steps), 'hessian', quad, fsH)
                # ---------------- Hessdiag ------------------------------------------------
                hm, ho = case['hd_method'], case['hd_order']
                ctx.count('hessdiag=%s|order=%d' % (hm, ho))
                what = 'Hessdiag(method=%s, order=%d)' % (hm, ho)
                dd, dsteps, dratio, dscale, _b = self._fit(ctx, nd, nd.Hessdiag, f, case, case['hd_step'], hm,
                                                           x_arr, an, hd_width(hm), what, order=ho)
                k_est = len(dsteps) - int(np.size(dd.fd_rule.rule(dratio))) + 1
                if k_est < 1:
                    ctx.skip('fewer steps than the rule needs (misuse, see C11)')
                with ctx.lib('no-exception', '%s(x) for a %s output%s' % (
                        what, prog['container'], ', complex-valued f' if wrap else '')):
                    hd, dinfo = dd(x_in)
                hd = np.asarray(hd)
                if hd.shape != (n,):
                    raise Violation('shape', 'Hessdiag shape %s for n=%d' % (hd.shape, n), target='hessdiag')
                estD = np.abs(np.asarray(dinfo.error_estimate))
                if estD.shape != (n,):
                    raise Violation('shape', 'Hessdiag error_estimate shape %s' % (estD.shape,),
                                    target='hessdiag')
                dhs = np.array([np.ravel(s) for s in dsteps])
                fsD = final_step(dinfo, (n,))
                self._aux = dict(cls='Hessdiag', order=ho, ratio=dratio,
                                 amp=max(1.0, float(np.sum(np.abs(dd.fd_rule.rule(dratio))))))
                boundsD = self._compare(ctx, case, an, hd, np.diag(Hex), dhs, hm, ho, k_est, 'hessdiag', quad, fsD)
                # ---------------- consistency ----------------------------------------------
                for j in range(n):
                    diff = abs(H[j, j] - hd[j])
                    est = float(estH[j, j] + estD[j])
                    hmin2 = min(hs[:, j].min(), dhs[:, j].min()) ** 2
                    noisy = difference_forming(method) or difference_forming(hm)
                    floor = FLOOR * EPS * (abs(Hex[j, j]) + (n + 2) * (
                        an.cond(0, (j, j)) + (an.noise(0) / hmin2 if noisy else 0.0)))
                    # rounding of the function values at the steps the library reports having used (both
                    # may legitimately return 0 +- 0 when every sample rounds to the same float, C02 (a))
                    for meth, fs, hcol, wd in ((method, fsH[j, j] if fsH is not None else None, hs[:, j],
                                                hess_width(method)),
                                               (hm, fsD[j] if fsD is not None else None, dhs[:, j], hd_width(hm))):
                        if difference_forming(meth):
                            hf = hcol.min() if fs is None or not math.isfinite(fs) else \
                                min(max(fs, hcol.min()), hcol.max())
                            Mv = float(an.majorant(0, (j,), [min(wd * hf, an.reach_limit((j,)), mv.R_CAP)])[0])
                            if math.isfinite(Mv):
                                floor += FLOOR * EPS * 2.0 * Mv / hf ** 2
                        else:
                            # multicomplex: relative rounding of the intermediates' components, eps * S_2
                            Sv = an.scale(2, 0, (j, j), wd * float(hcol.min()), math.inf)
                            if Sv is not None and math.isfinite(Sv):
                                floor += FLOOR * EPS * Sv
                    excess = max(diff - floor, 0.0)
                    r = excess / est if est > 0 else (0.0 if excess == 0 else math.inf)
                    reach = max(hess_width(method) * float(hs[:, j].max()), hd_width(hm) * float(dhs[:, j].max()))
                    informative = min(len(steps), k_est) >= 2 and reach <= an.reach_limit() / 2.0
                    ctx.track('cons |Hjj-hd_j|/(estH+estD)|%s|%s|%s%s' % (
                        method, hm, 'k>=2' if informative else 'k=1 or reach>rho/4 (not asserted)', self._kc), r,
                              dict(prog=mv.describe(prog), x=x, j=j, H=H[j, j], hd=hd[j], exact=Hex[j, j],
                                   estH=estH[j, j], estD=estD[j], step=case['step'], hd_step=case['hd_step'],
                                   order=ho))
                    if not informative:
                        ctx.count('consistency not asserted: single-estimate configuration or reach > rho/4 (C02/F10)')
                    if informative and r > K_CONS and not CALIBRATE:
                        raise Violation('consistency', 'diag(H)[%d]=%r (%s, est %.3g) vs Hessdiag=%r (%s order %d, '
                                        'est %.3g), exact %r: |diff|=%.3g > K(%g)*est + floor(%.3g)'
                                        % (j, H[j, j], method, estH[j, j], hd[j], hm, ho, estD[j], Hex[j, j],
                                           diff, K_CONS, floor), target='consistency', ratio=r)
        # ---------------- non-triviality ---------------------------------------------------
        if n >= 3:
            iu = np.triu_indices(n, 1)
            off, bo = Hex[iu], boundsH[iu]
            with np.errstate(invalid='ignore'):
                sens = bool(np.any(bo <= np.abs(off) / 2))
            distinct = True
            for a in range(len(off)):
                for b in range(a + 1, len(off)):
                    if not abs(off[a] - off[b]) > bo[a] + bo[b]:
                        distinct = False
            if sens and distinct:
                ctx.nontriv(dict(p=prog, x=x, m=method, s=case['step'], w=wrap))
                ctx.count('nontrivial|%s' % method)
        ctx.sample(dict(prog=mv.describe(prog), x=x, method=method, wrap=wrap, step=case['step'], H=H, exact=Hex,
                        hessdiag=hd, hd_method=case['hd_method'], hd_order=case['hd_order']))

    def _compare(self, ctx, case, an, lib, exact, hs, method, order, k_est, target, quad, fstep):
        """Entries of the Hessian (2-d) or of Hessdiag (1-d) against the exact values; returns bounds."""
        n = an.n
        x = case['x']
        diag_only = lib.ndim == 1
        w = hd_width(method) if diag_only else hess_width(method)
        bucket = mv.kbucket(k_est)
        spec = case['hd_step'] if diag_only else case['step']
        cfg = 'default' if spec['kind'] == 'default' else 'user'
        tol = (TOL_HD if diag_only else TOL_H).get('%s|%s|%s' % (method, bucket, cfg))
        dform = difference_forming(method)
        hmin, hmax = hs.min(axis=0), hs.max(axis=0)
        bounds = np.full(lib.shape, np.inf)
        if not np.all(np.isfinite(lib)):
            raise Violation('finite', '%s contains non-finite entries (every sample point is inside the '
                            'certified domain)' % target, target=target, lib=lib)
        if an.wrap is None and np.iscomplexobj(lib) and np.any(np.imag(lib) != 0):
            raise Violation('real', '%s is complex for a real function' % target, target=target)
        label = '%s|%s|%s|%s' % (target, method, bucket, cfg)
        pairs = [(j, j) for j in range(n)] if diag_only else [(j, k) for j in range(n) for k in range(j, n)]
        for j, k in pairs:
            lv = lib[j] if diag_only else lib[j, k]
            ex = exact[j] if diag_only else exact[j, k]
            err = abs(lv - ex)
            hh = hmin[j] * hmin[k]
            # product of the steps the library reports having used (clamped into the generated range, so a
            # wrong record can only make the floor smaller than the worst case hmin_j * hmin_k)
            hf = hh
            if fstep is not None:
                hf = fstep[j] ** 2 if diag_only else fstep[j, k] * fstep[k, j]
                hf = min(max(hf, hh), hmax[j] * hmax[k]) if math.isfinite(hf) else hh
            if quad and not diag_only:
                if method == 'multicomplex':
                    unit = EPS * abs(ex)
                    name, const = 'quad_mcx', QUAD_MCX
                else:
                    unit = EPS * an.sup_box(0, w * hmax) / hh
                    name, const = 'quad_real', QUAD_REAL
                ratio = err / unit if unit > 0 else (0.0 if err == 0 else math.inf)
                ctx.track('%s err/unit|%s' % (name, label), ratio,
                          dict(x=x, j=j, k=k, lib=lv, exact=ex, step=case['step'], wrap=case.get('wrap')))
                b = const * unit
                if ratio > const and not CALIBRATE:
                    raise Violation('quadratic', '%s[%d,%d]=%r, exact %r: |err|=%.3g > %g*unit(%.3g) for a '
                                    'quadratic (method=%s)' % (target, j, k, lv, ex, err, const, unit, method),
                                    target=target, j=j, k=k, ratio=ratio)
            else:
                r0 = w * math.sqrt(hh)
                r1 = w * math.sqrt(hmax[j] * hmax[k]) if dform else math.inf
                S = an.scale(2, 0, (j, k), r0, r1)
                if S is None or not math.isfinite(S):
                    ctx.count('scale unavailable')
                    continue
                floor = FLOOR * EPS * (abs(ex) + (n + 2) * (an.cond(0, (j, k)) + (an.noise(0) / hf if dform else 0.0)))
                if dform and fstep is not None:
                    # rounding of the (up to four) function values at the reported steps: eps |values| / (h_j h_k);
                    # the reported step is the largest of the t+1 steps a Richardson-extrapolated estimate combines
                    t_x = max(0, min(2, k_est - 1))
                    rr = float(abs(self._aux['ratio'])) if self._aux else 1.0
                    hft = max(hf / max(rr, 1.0) ** (2 * t_x), hh)
                    Mf = float(an.majorant(0, (j, k), [min(w * math.sqrt(hf), an.reach_limit((j, k)), mv.R_CAP)])[0])
                    if math.isfinite(Mf):
                        floor += FLOOR * EPS * 4.0 * Mf / hft
                excess = max(err - floor, 0.0)
                ratio = excess / S if S > 0 else (0.0 if excess == 0 else math.inf)
                ctx.track('err/S2|%s%s' % (label, self._kc if method == 'multicomplex' else ''), ratio,
                          dict(prog=mv.describe(case['prog']), x=x, j=j, k=k, lib=lv, exact=ex, S=S,
                               step=case['step'] if target == 'hessian' else case['hd_step'],
                               wrap=case.get('wrap')))
                b = math.inf
                # extrapolated-order: Richardson-aware unit with the documented orders (multivar.extrapolated_unit)
                if k_est >= 2:
                    aux = self._aux
                    # offsets actually reached: mixed partials move each coordinate by one step (the majorant sums
                    # |a_j| + |a_k|), diagonal entries by 2 h (sqrt(2) h for the complex rule x + (i +- 1) h e_j)
                    wx = w if diag_only else 1.0 if j != k else math.sqrt(2.0) if method == 'complex' else 2.0
                    ux = mv.extrapolated_unit(an, aux['cls'], method, aux['order'] or 2, 0, (j, k),
                                              [hs[:, j]] if j == k else [hs[:, j], hs[:, k]], k_est, aux['ratio'], wx,
                                              dform, aux['amp'])
                    if ux is not None and ux[0] > 0 and math.isfinite(ux[0]):
                        U, which, t, Tp, Rp, Tmax = ux
                        asymptotic = Tmax <= ASYMPTOTIC * S
                        xlabel = '%s|%s|%s' % (target, method, 'geo' if spec['kind'] == 'geo' else cfg)
                        if method == 'multicomplex' and (order or 0) >= 4:
                            xlabel += '|mcx-order>=4'
                        xlabel += self._kc if method == 'multicomplex' else ''
                        summ = dict(prog=mv.describe(case['prog']), x=x, j=j, k=k, lib=lv, exact=ex, U=U, T=Tp, R=Rp,
                                    unit=which, step=spec, k_est=k_est, order=order)
                        # truncation-dominated and rounding-dominated windows are calibrated separately: extrapolation
                        # (Richardson, Wynn) of estimates that differ only by rounding noise amplifies that noise
                        if Tp >= Rp:
                            ctx.track('x-order err/T (T>=R)|%s' % xlabel, excess / Tp, summ)
                        else:
                            ctx.track('x-order err/R (R>T)|%s' % xlabel, excess / Rp, summ)
                        cx = C_X.get('%s|%s' % (target, method)) if asymptotic and (spec['kind'] == 'geo' or (
                            cfg == 'default' and method in REAL_STEP)) else None
                        if not asymptotic:
                            ctx.count('x-order not asserted: sequence not asymptotic (T_p(h_max) > 1e-2 S_2)')
                        if cx is not None and not CALIBRATE:
                            if spec['kind'] == 'geo':
                                ctx.count('x-order asserted on a short geometric user sequence|%s|%s' % (target, method))
                            bx = cx * Tp + C_XR * Rp
                            b = bx + floor
                            if excess > bx:
                                raise Violation('extrapolated-order', '%s[%d,%d]=%r exact %r: |err|=%.3g > C_X(%g)*T(%.3g)+C_XR(%g)*'
                                                'R(%.3g) [%s unit, t=%d, k_est=%d] + floor(%.3g) (method=%s)'
                                                % (target, j, k, lv, ex, err, cx, Tp, C_XR, Rp, which, t, k_est, floor,
                                                   method), target=target, j=j, k=k, ratio=excess / bx, k_est=k_est)
                if tol is not None and not CALIBRATE:
                    b = min(b, tol * S + floor)
                    if ratio > tol:
                        raise Violation('envelope', '%s[%d,%d]=%r exact %r: |err|=%.3g > tol(%g)*S_2(%.3g)+floor(%.3g) '
                                        '(method=%s)' % (target, j, k, lv, ex, err, tol, S, floor, method),
                                        target=target, j=j, k=k, ratio=ratio)
                if not math.isfinite(b):
                    continue
            if diag_only:
                bounds[j] = b
            else:
                bounds[j, k] = bounds[k, j] = b
        if not (quad and not diag_only) and tol is None:
            ctx.count('weak cell (no envelope): %s' % label)
        return bounds

    def finding_key(self, case, v):
        if case is None:
            return {'clause': v.clause}
        target = v.details.get('target')
        method = case['hd_method'] if target == 'hessdiag' else case['method']
        key = {'clause': v.clause, 'target': target, 'method': method, 'hessian_method': case['method'],
               'hessdiag_method': case['hd_method'], 'hessdiag_order': case['hd_order'], 'kind': case['kind'],
               'container': case['prog']['container'], 'complex_f': case.get('wrap') is not None,
               'n': case['prog']['n'], 'step_kind': case['step']['kind'],
               'exception': v.details.get('exception'), 'where': v.details.get('where'),
               'ops': [], 'negative_real_part': False, 'tanh_arg_over_300': False,
               'order': case['hd_order'] if target == 'hessdiag' else None}
        if target == 'consistency' and 'multicomplex' in (case['method'], case['hd_method']):
            key['method'] = 'multicomplex'
        try:
            an = mv.MVAnalysis(case['prog'], case['x'], K=4)
            key['ops'] = an.ops()
            key['negative_real_part'] = bool(an.negative_base())
            key['tanh_arg_over_300'] = tanh_over_300(case['prog'], an)
        except Exception:
            pass
        return key


def final_step(info, shape):
    """|final_step| of the full_output record as an array of the given shape, or None."""
    try:
        fs = np.abs(np.asarray(info.final_step, dtype=float))
        return fs.reshape(shape)
    except Exception:
        return None


def tanh_over_300(prog, an):
    return bool(max([exprs.max_abs_argument(prog['pool'][r]['g'], float(f['t0']), ('tanh',))
                     for r, f in an.factors.items()] or [0.0]) > 300)


def difference_forming(method):
    return method != 'multicomplex'


def mcx_order_class(key):
    """multicomplex with order >= 4: the library's Richardson step assumes a leading error h^order although the
    multicomplex quotient is O(h^2) whatever `order` says (reported; e.g. Hessdiag(exp, method='multicomplex',
    order=4, steps 0.2, 0.1, 0.05) is 6e-4 off, order=2 3e-9)."""
    return key.get('clause') == 'extrapolated-order' and key.get('method') == 'multicomplex' \
        and (key.get('order') or 0) >= 4


def known_class(key):
    """The multicomplex precision-loss classes already reported to the lead (F9 / F11 of DESIGN 7)."""
    if key.get('method') != 'multicomplex' or key.get('clause') not in ('envelope', 'extrapolated-order', 'consistency', 'finite'):
        return False
    ops = set(key.get('ops') or [])
    if ops & set(F9_OPS):
        return True
    if key.get('negative_real_part') and ops & {'/', 'powi', 'powr', 'tan'}:
        return True
    return bool(key.get('tanh_arg_over_300'))


PROP = C04()
