"""C15 - fd_weights / fd_weights_all equal the exact Lagrange-derivative weights for any nodes.

Oracle: Fractions.  l_i(t) is expanded around x0 by polynomial multiplication from the same
floating-point nodes (Fraction(float) is exact); W[k][i] = k! [s^k] l_i(x0 + s).
"""
from fractions import Fraction

import numpy as np
from hypothesis import strategies as st

from nverif.engine import Prop, Violation
from nverif.oracle.rational import lagrange_derivative_weights, poly_eval, poly_deriv

EPS = 2.0 ** -52
TOL_W = 2e-12         # relative to max_i |W[k][i]| * kappa, kappa = diameter / ((m-1) * smallest gap) >= 1


@st.composite
def node_case(draw):
    m = draw(st.integers(2, 14))
    kind = draw(st.sampled_from(['uniform', 'jitter', 'random', 'clustered', 'onesided']))
    scale = 10.0 ** draw(st.floats(-3, 3))
    centre = draw(st.sampled_from([0.0, 1.0, -2.5])) * draw(st.sampled_from([0.0, 1.0, 100.0])) * scale
    if kind in ('uniform', 'onesided'):
        h = scale * draw(st.floats(0.05, 1.0))
        nodes = [centre + h * i for i in range(m)]
    elif kind == 'jitter':
        h = scale * draw(st.floats(0.05, 1.0))
        nodes = [centre + h * (i + draw(st.floats(-0.3, 0.3))) for i in range(m)]
    elif kind == 'random':
        gaps = [scale * 10.0 ** draw(st.floats(-2, 0)) for _ in range(m)]
        nodes = list(centre + np.cumsum(gaps))
    else:  # clustered: some gaps are tiny (1e-6 .. 1 relative)
        gaps = [scale * (10.0 ** draw(st.floats(-6, 0)) if draw(st.booleans()) else 1.0)
                for _ in range(m)]
        nodes = list(centre + np.cumsum(gaps))
    nodes = [float(v) for v in nodes]
    lo, hi = min(nodes), max(nodes)
    diam = hi - lo
    if kind == 'onesided':
        x0kind = draw(st.sampled_from(['end', 'outside']))
    else:
        x0kind = draw(st.sampled_from(['node', 'inside', 'outside', 'zero', 'centre', 'far']))
    if x0kind == 'node':
        x0 = nodes[draw(st.integers(0, m - 1))]
    elif x0kind == 'end':
        x0 = draw(st.sampled_from([lo, hi]))
    elif x0kind == 'inside':
        x0 = lo + diam * draw(st.floats(0.0, 1.0))
    elif x0kind == 'outside':
        x0 = draw(st.sampled_from([lo - diam * draw(st.floats(0.01, 1.0)),
                                   hi + diam * draw(st.floats(0.01, 1.0))]))
    elif x0kind == 'far':           # extrapolation from far away: 10 .. 1e4 diameters outside
        far = 10.0 ** draw(st.floats(1.0, 4.0))
        x0 = draw(st.sampled_from([lo - diam * far, hi + diam * far]))
    elif x0kind == 'centre':
        x0 = nodes[m // 2]
    else:
        x0 = 0.0
    order = draw(st.sampled_from(['sorted', 'reversed', 'permuted']))
    if order == 'reversed':
        nodes = nodes[::-1]
    elif order == 'permuted':
        nodes = list(draw(st.permutations(nodes)))
    n = draw(st.integers(0, m - 1))
    coefs = [float(draw(st.integers(-9, 9))) for _ in range(m)]     # polynomial of degree < m
    as_list = draw(st.booleans())
    return dict(nodes=nodes, x0=float(x0), n=n, kind=kind, x0kind=x0kind, order=order,
                coefs=coefs, as_list=as_list)


class C15(Prop):
    id = 'C15'
    title = 'fd_weights equal the exact Lagrange-derivative weights for any nodes'
    rule = ('Hypothesis draws 2..14 distinct nodes (uniform / jittered / random / clustered with gaps '
            'down to 1e-6 relative / one-sided; sorted, reversed or permuted), x0 on a node, inside, '
            'outside by up to one diameter, far outside (10..1e4 diameters) or 0, and n < len(x). Oracle: Lagrange basis expanded in '
            'Fractions from the same floats. Non-trivial = at least 4 nodes and (nodes non-uniform or '
            'x0 not the centre node); distinct by (nodes, x0, n).')
    assumptions = ('python fractions.Fraction arithmetic is exact',
                   'tolerance 2e-12 * max_i|W[k][i]| * kappa per row, kappa = diameter / ((m-1) * smallest node gap) '
                   '(conditioning of the node set; 1 for uniform nodes), calibrated 100x above the worst seen (86 eps kappa over 2e5 cases)')
    constants = {'TOL_W': TOL_W}
    examples = {'quick': 500, 'thorough': 4000}

    def strategy(self, tier):
        return node_case()

    def check(self, case, ctx):
        import numdifftools.fornberg as ndf
        nodes, x0, n = case['nodes'], case['x0'], case['n']
        m = len(nodes)
        if len(set(nodes)) != m:
            ctx.skip('nodes collapsed to duplicates after rounding')
        x = list(nodes) if case.get('as_list') else np.array(nodes, dtype=float)
        with ctx.lib('no-exception', 'fd_weights_all(len=%d, n=%d)' % (m, n)):
            raw = ndf.fd_weights_all(x, x0, n)
            w_all = np.array(raw)
            w_n = np.array(ndf.fd_weights(x, x0, n))
            # the returned table belongs to the caller: rescaling it in place (weights for a scaled
            # grid) must not change what the same request returns afterwards
            again = None
            if isinstance(raw, np.ndarray) and raw.flags.writeable:
                raw *= -1000.0
                again = np.array(ndf.fd_weights_all(x, x0, n))
        if again is not None and not (again.shape == w_all.shape and np.array_equal(again, w_all, equal_nan=True)):
            raise Violation('repeat', 'fd_weights_all returns different weights for the same request after the '
                            'first result was modified in place by the caller')
        if w_all.shape != (n + 1, m):
            raise Violation('shape', 'fd_weights_all returned shape %s, expected %s' % (w_all.shape, (n + 1, m)))
        if not (w_n.shape == (m,) and np.array_equal(w_n, w_all[-1], equal_nan=True)):
            raise Violation('row-n', 'fd_weights differs from the last row of fd_weights_all')
        W = lagrange_derivative_weights(nodes, x0, n)
        srt = sorted(nodes)
        kappa = max(1.0, (srt[-1] - srt[0]) / min(b - a for a, b in zip(srt, srt[1:])) / (m - 1))
        fx0 = Fraction(x0)
        coefs = [Fraction(c) for c in case['coefs']]
        samples = [poly_eval(coefs, Fraction(v) - fx0) for v in nodes]   # polynomial in (t - x0)
        ctx.count('kind=%s' % case['kind'])
        ctx.count('x0=%s' % case['x0kind'])
        ctx.count('order=%s' % case['order'])
        ctx.count('m=%d' % m)
        for k in range(n + 1):
            row = w_all[k]
            if not np.all(np.isfinite(row)):
                raise Violation('finite', 'row %d contains non-finite weights' % k, row=row.tolist())
            wmax = max(abs(v) for v in W[k])
            if wmax == 0:
                if np.any(row != 0):
                    raise Violation('weights', 'exact row %d is zero, library row is not' % k)
                continue
            fw = float(wmax)
            err = max(abs(Fraction(float(row[i])) - W[k][i]) for i in range(m))
            # conditioning of the node set: Fornberg's recursion divides by the node gaps, so close
            # nodes amplify rounding by about diameter / smallest gap (12 nodes with one gap of 1e-5 in
            # a diameter of 6: error 3e-11 * max|W|, seen at seed 204)
            ratio = float(err) / (fw * kappa)
            ctx.track('weight_err/(eps*max|W|*kappa)', ratio / EPS, dict(nodes=nodes, x0=x0, k=k))
            ctx.track('weight_err/(eps*max|W|)|%s' % case['kind'], float(err) / fw / EPS)
            if ratio > TOL_W:
                i = max(range(m), key=lambda i: abs(Fraction(float(row[i])) - W[k][i]))
                raise Violation('weights', 'row %d entry %d: library %r, exact %r (rel. to max weight %.3g)'
                                % (k, i, float(row[i]), float(W[k][i]), ratio), k=k, i=i)
            # applying the (float) row exactly to exact samples gives p^(k)(x0).  The exact weights do so
            # identically (checked: it ties the Lagrange oracle to plain polynomial differentiation), hence
            # applied - exact = sum_i (row_i - W_i) p_i, bounded by max_i|row_i - W_i| * sum_i|p_i|.  (The
            # sharper scale sum_i|W_i p_i| is not a rounding bound: the largest weight can sit on a node where
            # p vanishes - two nodes, x0 far outside, seen at seed 7.)
            exact = poly_eval(poly_deriv(coefs, k), Fraction(0)) if k < m else Fraction(0)
            if sum(W[k][i] * samples[i] for i in range(m)) != exact:
                raise RuntimeError('oracle inconsistency: exact weights do not differentiate the polynomial')
            applied = sum(Fraction(float(row[i])) * samples[i] for i in range(m))
            cond = wmax * sum(abs(v) for v in samples)
            if cond > 0:
                r2 = float(abs(applied - exact) / cond)
                ctx.track('poly_err/(eps*max|W|*sum|p|*kappa)', r2 / EPS / kappa)
                if r2 > TOL_W * kappa:
                    raise Violation('polynomial', 'row %d applied to a degree<%d polynomial gives %r, '
                                    'exact %r' % (k, m, float(applied), float(exact)), k=k)
            rs = sum(Fraction(float(v)) for v in row)
            target = 1 if k == 0 else 0
            ctx.track('rowsum_err/(eps*max|W|*m*kappa)', float(abs(rs - target)) / (EPS * m * fw * kappa))
            if float(abs(rs - target)) > TOL_W * m * fw * kappa:
                raise Violation('row-sum', 'row %d sums to %r instead of %d' % (k, float(rs), target), k=k)
        uniform = case['kind'] in ('uniform', 'onesided')
        if m >= 4 and (not uniform or case['x0kind'] != 'centre'):
            ctx.nontriv(dict(nodes=nodes, x0=x0, n=n))
        ctx.sample(dict(nodes=nodes, x0=x0, n=n, row_n=w_n.tolist(),
                        exact_row_n=[float(v) for v in W[n]]))

    def finding_key(self, case, violation):
        return {'clause': violation.clause, 'kind': case.get('kind'), 'x0kind': case.get('x0kind')}


PROP = C15()
