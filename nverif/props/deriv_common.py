"""Shared case generator and evaluation for C01 (accuracy envelope) and C02 (honest error estimate)
on numdifftools.Derivative.  See DESIGN.md sections 3.1, C01, C02.
"""
import json
import math
import os
import warnings

import mpmath as mp
import numpy as np
from hypothesis import strategies as st

from nverif.engine import Skip, Violation
from nverif.oracle import exprs
from nverif.oracle.jets import JetDomainError

EPS = 2.0 ** -52
METHODS = ['central', 'forward', 'backward', 'complex', 'multicomplex']
NMAX = {'central': 10, 'forward': 10, 'backward': 10, 'complex': 10, 'multicomplex': 2}
REAL_STEP = ('central', 'forward', 'backward')
CONST_PATH = os.path.join(os.path.dirname(os.path.dirname(os.path.abspath(__file__))), 'constants.json')


def load_constants():
    with open(CONST_PATH) as fh:
        return json.load(fh)


def cfgclass(case):
    """'default': the library chooses the steps (default generator, possibly with num_extrap /
    step_ratio options, scaled into the certified disc); 'user': Min/Max generator or scalar step
    supplied by the caller."""
    st_ = case['step']
    if st_['kind'] == 'default' or (st_['kind'] == 'options' and st_.get('step_ratio') is None):
        return 'default'
    return 'user'


def kbucket(k_est):
    if k_est <= 1:
        return 'k1'
    if k_est <= 3:
        return 'k2-3'
    if k_est <= 7:
        return 'k4-7'
    return 'k8+'


# --------------------------------------------------------------------------------------
# strategy
# --------------------------------------------------------------------------------------

@st.composite
def xs(draw):
    return draw(st.sampled_from([-1.0, 1.0])) * 10.0 ** draw(st.floats(-3.0, 2.0))


@st.composite
def step_spec(draw, method):
    """Relative step specification; resolved against the certified radius inside check()."""
    cstep = method in ('complex', 'multicomplex')
    kind = draw(st.sampled_from(['default'] * 5 + ['min', 'max', 'scalar', 'options']))
    spec = dict(kind=kind, u=draw(st.floats(0.0, 0.5)))
    if kind in ('min', 'max'):
        spec['step_ratio'] = draw(st.sampled_from([None, None, 1.6, 2.0, 3.0, 4.0]))
        spec['offset'] = draw(st.sampled_from([0, 0, -1, 1]))
        spec['use_exact_steps'] = draw(st.booleans())
        if kind == 'max':
            spec['num_steps'] = draw(st.sampled_from([15, 15, None]) if draw(st.booleans())
                                     else st.integers(1, 25))
            spec['log10_base'] = draw(st.floats(-3.0, 0.5))
        else:
            spec['num_steps'] = draw(st.sampled_from([None, None, 3, 6, 10, 16]))
            spec['num_extrap'] = draw(st.integers(0, 9))
            spec['log10_base'] = (draw(st.floats(-12.0, -0.5)) if cstep else draw(st.floats(-6.0, -1.0))) \
                if draw(st.booleans()) else None
    elif kind == 'scalar':
        spec['log10_base'] = draw(st.floats(-12.0, -1.0)) if cstep else draw(st.floats(-5.0, -1.0))
    elif kind == 'options':
        spec['num_extrap'] = draw(st.integers(0, 9))
        spec['step_ratio'] = draw(st.sampled_from([None, 1.6, 2.0, 3.0, 4.0]))
    return spec


@st.composite
def derivative_case(draw, full_output=None, n_min=0, complex_f=True):
    tree = draw(exprs.expr_trees())
    method = draw(st.sampled_from(METHODS))
    nmax = NMAX[method]
    # weight ~ 1/(1 + n/3): the low orders, where the envelope is sharp, dominate
    weights = [n for n in range(n_min, nmax + 1) for _ in range(max(1, int(round(12.0 / (1 + n / 3.0)))))]
    n = draw(st.sampled_from(weights))
    order = draw(st.integers(1, 8))
    npts = draw(st.sampled_from([1, 1, 1, 1, 2, 3, 6]))
    # construction instead of rejection: candidates are drawn, the first ones inside the
    # (certified) domain of the tree are used
    cands = [draw(xs()) for _ in range(npts + 6)]
    good = [c for c in cands if exprs.Analysis(tree, c, K=4).rho_cert > 1e-7 * abs(c)]
    x = (good + cands)[:npts]
    wrap = None
    if complex_f and method in REAL_STEP and draw(st.integers(0, 5)) == 0:
        if draw(st.booleans()):
            wrap = dict(kind='affine',
                        a=[round(draw(st.floats(-2, 2)), 3), round(draw(st.floats(0.1, 2)), 3)],
                        b=[round(draw(st.floats(-2, 2)), 3), round(draw(st.floats(-2, 2)), 3)])
        else:
            wrap = dict(kind='expi')
    fo = draw(st.booleans()) if full_output is None else full_output
    shape = None
    if npts == 6:
        shape = draw(st.sampled_from([None, [2, 3], [3, 2], [1, 6], [2, 1, 3]]))
    return dict(tree=tree, x=x, scalar=(npts == 1 and draw(st.booleans())), method=method, n=n,
                order=order, step=draw(step_spec(method)), wrap=wrap, full_output=fo, shape=shape)


# --------------------------------------------------------------------------------------
# building the library object for a case
# --------------------------------------------------------------------------------------

def default_cstep_base(nd, case):
    """Default base step EPS**(1/scale) of the complex-step methods for the case's (method, n, order)."""
    from numdifftools.finite_difference import LogRule
    from numdifftools.step_generators import default_scale, get_base_step
    n = case.get('n', 1)
    mo = LogRule(n=n, method=case['method'], order=case['order']).method_order
    return get_base_step(default_scale(case['method'], n, mo))


def make_step(nd, case, scale=1.0):
    """Return (step argument, extra options) for Derivative(...); all steps multiplied by scale."""
    spec, method = case['step'], case['method']
    kind = spec['kind']
    cstep = method in ('complex', 'multicomplex')
    if kind == 'default':
        if scale == 1.0:
            return None, {}
        if cstep:
            return nd.MinStepGenerator(base_step=default_cstep_base(nd, case) * scale), {}
        return nd.MaxStepGenerator(base_step=2.0 * scale), {}
    if kind == 'options':
        opts = {'num_extrap': spec['num_extrap']}
        if spec.get('step_ratio') is not None:
            opts['step_ratio'] = spec['step_ratio']
        if scale != 1.0:
            if cstep:
                return nd.MinStepGenerator(base_step=default_cstep_base(nd, case) * scale, **opts), {}
            opts['base_step'] = 2.0 * scale
        return None, opts
    if kind == 'scalar':
        return 10.0 ** spec['log10_base'] * scale, {}
    if kind == 'max':
        return nd.MaxStepGenerator(base_step=10.0 ** spec['log10_base'] * scale,
                                   step_ratio=spec['step_ratio'], num_steps=spec['num_steps'],
                                   offset=spec['offset'], use_exact_steps=spec['use_exact_steps']), {}
    if kind == 'min':
        if spec['log10_base'] is None:
            base = None if scale == 1.0 else default_cstep_base(nd, case) * scale \
                if cstep else nd.step_generators.get_base_step(
                    nd.step_generators.default_scale(method, case.get('n', 1), case['order'])) * scale
        else:
            base = 10.0 ** spec['log10_base'] * scale
        return nd.MinStepGenerator(base_step=base, step_ratio=spec['step_ratio'],
                                   num_steps=spec['num_steps'], offset=spec['offset'],
                                   num_extrap=spec['num_extrap'],
                                   use_exact_steps=spec['use_exact_steps']), {}
    raise ValueError(kind)


def build(nd, cls, f, case, scale, **extra):
    """Construct the derivative object of ``case`` with all steps multiplied by ``scale``."""
    step, opts = make_step(nd, case, scale)
    kw = dict(method=case['method'], order=case['order'], full_output=case['full_output'])
    if cls is nd.Derivative:
        kw['n'] = case['n']
    kw.update(extra)
    kw.update(opts)
    return cls(f, step=step, **kw)


def generated_steps(d, x_arr):
    """The step sequence the object will use at x (configuration, not result): list of arrays."""
    gen = d.step.step_generator_function(x_arr, d.method, d.n, d.method_order)
    steps = [np.abs(np.asarray(s, dtype=float)) * np.ones(np.shape(x_arr)) for s in gen()]
    return steps, gen.step_ratio


def stencil_width(method, n):
    return 2.0 if method == 'multicomplex' else 1.0


def difference_forming(method, n, order):
    """True if the rule subtracts nearly equal function values (rounding ~ eps*|f|/h^n)."""
    if method == 'multicomplex':
        return False
    if method == 'complex':
        return n > 1 or order >= 4
    return True


class Evaluated(object):
    pass


def evaluate(case, ctx, need_info=False):
    """Run the library on the case and compute the oracle.  Returns an Evaluated record with, per
    element of x: lib value, exact value, scales S_n / S_{n+1}, steps, k_est ...
    Raises Skip for cases outside the asserted domain, Violation for exceptions/shape errors."""
    import numdifftools as nd
    tree, method, n, order = case['tree'], case['method'], case['n'], case['order']
    xlist = [float(v) for v in case['x']]
    wrap = case.get('wrap')
    K = 40
    ans = []
    for xv in xlist:
        a = exprs.Analysis(tree, xv, K=K, wrap=wrap)
        if a.rho_cert <= 1e-7 * abs(xv):
            raise Skip('certified radius below 1e-7*|x| (or not analytic at x)')
        ans.append(a)
    try:
        for a in ans:
            a.jets
    except JetDomainError:
        raise Skip('jet oracle undefined at x')
    f = exprs.np_function_wrapped(tree, wrap) if wrap else exprs.np_function(tree)
    x_arr = np.asarray(xlist[0]) if case.get('scalar') else np.asarray(xlist)
    if case.get('shape'):
        x_arr = x_arr.reshape(case['shape'])
    w = stencil_width(method, n)
    rho_min = min(a.rho_cert for a in ans)
    ev = Evaluated()
    ev.case, ev.analyses, ev.f, ev.x_arr = case, ans, f, x_arr
    with warnings.catch_warnings():
        warnings.simplefilter('ignore')
        with ctx.lib('no-exception', 'constructing Derivative(%s, n=%d, order=%d)' % (method, n, order)):
            d = build(nd, nd.Derivative, f, case, 1.0)
        scale = 1.0
        steps = ratio = None
        if n > 0:
            with ctx.lib('no-exception', 'step generator'):
                steps, ratio = generated_steps(d, x_arr)
            if not steps:
                raise Skip('no steps generated')
            reach = w * max(float(np.max(s / np.where(np.array([a.rho_cert for a in ans]).reshape(np.shape(x_arr)) > 0,
                                                      np.array([a.rho_cert for a in ans]).reshape(np.shape(x_arr)), 1.0)))
                            for s in steps)     # max over elements of w*h/rho
            if reach > 0.5:
                scale = 0.5 / reach * 10.0 ** (-case['step'].get('u', 0.0))
                with ctx.lib('no-exception', 'constructing Derivative with scaled steps'):
                    d = build(nd, nd.Derivative, f, case, scale)
                    steps, ratio = generated_steps(d, x_arr)
                if not steps:
                    raise Skip('no steps generated')
                reach = w * max(float(np.max(s / np.array([a.rho_cert for a in ans]).reshape(np.shape(x_arr))))
                                for s in steps)
                if reach > 0.5 * (1 + 1e-6):
                    raise Skip('steps cannot be scaled into the certified disc')
        ev.scale, ev.steps, ev.ratio, ev.d = scale, steps, ratio, d
        if n > 0:
            rule_len = int(np.size(d.fd_rule.rule(ratio)))
            ev.k_est = len(steps) - rule_len + 1
            if ev.k_est < 1:
                raise Skip('fewer steps than the rule needs (misuse, see C11)')
        else:
            ev.k_est = 1
        with ctx.lib('no-exception', 'Derivative(%s, n=%d, order=%d, method=%s)(x)'
                     % (exprs.show(tree), n, order, method)):
            with np.errstate(all='ignore'):
                out = d(x_arr)
    if case['full_output']:
        if not (isinstance(out, tuple) and len(out) == 2):
            raise Violation('full-output', 'full_output=True did not return (value, info)')
        val, info = out
    else:
        val, info = out, None
    ev.val, ev.info = val, info
    if np.shape(val) != np.shape(x_arr):
        raise Violation('shape', 'result shape %s for x of shape %s' % (np.shape(val), np.shape(x_arr)),
                        method=method, n=n)
    ev.vals = np.ravel(np.asarray(val))
    ev.exact = [exprs.mp.mpmathify(0)] * len(xlist)
    ev.exact = [a.exact(n) for a in ans]
    ev.exact_f = [complex(v) if isinstance(v, mp.mpc) else float(v) for v in ev.exact]
    # scales
    ev.S, ev.S1, ev.hmin, ev.hmax, ev.U, ev.Umax, ev.Ux, ev.Thead, ev.Rmax = [], [], [], [], [], [], [], [], []
    ev.amp = float(np.sum(np.abs(d.fd_rule.rule(ratio)))) if n > 0 else 1.0
    ev.amp = max(ev.amp, 1.0)
    for j, a in enumerate(ans):
        if n == 0:
            ev.S.append(None)
            ev.S1.append(None)
            ev.U.append(None)
            ev.Umax.append(None)
            ev.Ux.append(None)
            ev.Thead.append(None)
            ev.Rmax.append(None)
            ev.hmin.append(None)
            ev.hmax.append(None)
            continue
        hs = [float(np.ravel(s)[j]) for s in steps]
        hmin, hmax = min(hs), max(hs)
        r0 = w * hmin
        r1 = w * hmax if difference_forming(method, n, d.order) else a.rho_cert / 2.0
        ev.S.append(a.scale(n, r0, r1))
        ev.S1.append(a.scale(n + 1, r0, r1))
        # a rule window is scaled by its largest step: only the k_est largest steps head a window
        heads = sorted(hs, reverse=True)[:max(ev.k_est, 1)]
        # multicomplex applies no finite-difference rule: its quotient is second order whatever
        # `order` says (the property excludes it from C06 for that reason)
        p_eff = 2 if method == 'multicomplex' else d.method_order
        u_basic = envelope_unit(a, n, p_eff, heads, w, difference_forming(method, n, d.order), ev.amp)
        # Richardson-aware unit: with t extrapolation terms the estimates built from the k_est - t
        # largest steps have truncation order p + s*t, s the documented spacing of the error
        # expansion (1 one-sided, 2 central / multicomplex / complex n=1 order<4, 4 other complex) and
        # p the documented leading order; both restated here, not read from the library
        s_true, p_true = documented_orders(method, n, d.order)
        t = max(0, min(int(getattr(d, 'richardson_terms', 2)), ev.k_est - 1))
        u_x = None
        if t > 0:
            amp_r = richardson_amplification(float(abs(ratio)), p_true, s_true, t)
            heads_r = sorted(hs, reverse=True)[:max(ev.k_est - t, 1)]
            u_x = envelope_unit(a, n, p_true + s_true * t, heads_r, w,
                                difference_forming(method, n, d.order), ev.amp * amp_r)
        amp_all = ev.amp * (richardson_amplification(float(abs(ratio)), p_true, s_true, t) if t > 0 else 1.0)
        if u_basic is not None and u_x is not None and u_x[0] < u_basic[0]:
            ev.U.append(u_x)
        else:
            ev.U.append(u_basic)
        # extrapolated-order unit and the asymptotic gate (user sequences): the documented order
        # p + s*t may only be demanded when even the largest step is in the asymptotic regime, i.e.
        # the raw truncation T_p at the largest window head is a small fraction of the scale S_n
        ev.Ux.append(u_x)
        # largest rounding unit over the windows (truncation terms switched off)
        r_only = envelope_unit(a, n, a.K - 1 - n, heads, w, difference_forming(method, n, d.order), amp_all,
                               pick='max')
        ev.Rmax.append(None if r_only is None else r_only[2])
        t_head = envelope_unit(a, n, p_eff, [max(heads)], w, difference_forming(method, n, d.order), 1.0)
        ev.Thead.append(None if t_head is None else t_head[1])
        # worst-window unit (user-supplied steps): every candidate the library can return is a
        # Richardson combination of the raw estimates of the windows, so its error is at most
        # sum|w_R| * max over ALL windows of the raw unit (no assumption that the sequence is in its
        # asymptotic regime or that the best window is selected)
        ev.Umax.append(envelope_unit(a, n, p_eff, heads, w, difference_forming(method, n, d.order),
                                     amp_all, pick='max'))
        ev.hmin.append(hmin)
        ev.hmax.append(hmax)
    return ev


def envelope_unit(a, n, p, hs, w, diff_forming, amp, pick='min'):
    """U = amp * min_j [ T_p(w h_j) + R(h_j) ]  for the generated steps h_j   (DESIGN 10.1)

    T_p(r) = n! (sum_{k >= n+p} |c_k| r^(k-n) + Cauchy tail)          truncation of an order-p rule
    R(h)   = eps n! max(max_g M_g(w h), sens_0) / h^n                 rounding of a difference of values
           = eps max(n! max_g sum_{k >= n} |c_k(g)| (w h)^(k-n), sens_n, n! max_g M_g(rho/2)/(rho/2)^n)
                                                                       cancellation-free rules
             (sens_k = sum over intermediates g of |d f^(k) / d log g|: conditioning of the evaluation)
    amp    = sum |rule weights| (conditioning of the rule).  Returns (U, T_best, R_best) or None."""
    hs = np.asarray(sorted(set(float(h) for h in hs if h > 0)))
    if hs.size == 0:
        return None
    radii = w * hs
    sens = a.sensitivity(n)
    if sens is None:
        return None
    with np.errstate(all='ignore'):
        ls0 = math.log(sens[0]) if sens[0] > 0 else -math.inf
        lsn = math.log(sens[1]) if sens[1] > 0 else -math.inf
        lt = a.log_bound(n, radii, node=-1, kmin=n + p)[0]
        if diff_forming:
            # rounding of the sampled values: sup of the sub-expressions on the disc, or the
            # first-order sensitivity of f to relative errors of its intermediates, whichever is larger
            lv = np.logaddexp(np.max(a.log_bound(0, radii), axis=0), ls0)
            lr = lv + math.lgamma(n + 1) - n * np.log(hs) + math.log(EPS)
        else:
            # + the Cauchy estimate n! sup|g| / r^n on the certified disc (r = rho/2): operations
            # such as a Bicomplex division have internal steps (1/u) that the tree does not show
            lc = float(np.max(a.log_bound(n, [a.rho_cert / 2.0])))
            lr = np.logaddexp(np.logaddexp(np.max(a.log_bound(n, radii, kmin=n), axis=0), lsn), lc) \
                + math.log(EPS)
        tot = np.logaddexp(lt, lr)
    j = int(np.argmin(tot)) if pick == 'min' else int(np.argmax(tot))
    if not np.isfinite(tot[j]) or tot[j] > 700:
        return None
    return amp * math.exp(tot[j]), amp * math.exp(min(lt[j], 700)), amp * math.exp(min(lr[j], 700))


def documented_orders(method, n, order):
    """(spacing s, leading order p) of the truncation-error expansion as documented."""
    if method in ('forward', 'backward'):
        s = 1
    elif method == 'complex' and (n > 1 or order >= 4):
        s = 4
    else:
        s = 2
    if method == 'multicomplex':
        return 2, 2
    return s, max(s * (order // s), s)


def richardson_amplification(r, p, s, t):
    """sum |w| of the Richardson weights that remove h^(p + s j), j < t, for step ratio r > 1."""
    if t <= 0 or not (r > 1):
        return 1.0
    A = np.ones((t + 1, t + 1))
    for i in range(t + 1):
        for j in range(t):
            A[j + 1, i] = r ** (-i * (p + s * j))
    rhs = np.zeros(t + 1)
    rhs[0] = 1.0
    try:
        wts = np.linalg.solve(A, rhs)
    except np.linalg.LinAlgError:
        return 1.0
    return float(max(1.0, np.sum(np.abs(wts))))


def summary(case, ev=None, j=0):
    s = dict(f=exprs.show(case['tree']), wrap=case.get('wrap'), x=case['x'], method=case['method'],
             n=case['n'], order=case['order'], step=case['step'])
    if ev is not None:
        s.update(lib=ev.vals[j], exact=ev.exact_f[j], S_n=ev.S[j], k_est=ev.k_est, scale=ev.scale)
    return s
