"""C02, multivariate part: honest error estimate and self-consistent full_output record for
Gradient, Jacobian, Hessdiag and Hessian.

Exposes  mv_case()  (Hypothesis strategy),  check_mv(case, ctx),  mv_finding_key(case, violation)  and a
self-test entry point  ``python -m nverif.props.c02mv N SEED``.

Programs, exact derivatives, analyticity certificate and majorants come from nverif.oracle.multivar; the step
configuration is constructed inside the certified reach with multivar.fit_steps (as in C03 / C04).

(c) record consistency, exact, every case
    record-f_value     info.f_value == f(x) re-evaluated by the harness (np.array_equal, equal_nan; a size-1
                       value is compared by value only: Hessdiag/Hessian reduce a length-1 return to 0-d)
    record-shape       error_estimate.size == final_step.size == index.size == result.size, shapes broadcast-
                       compatible with the result
    record-estimate    error_estimate >= 0 and finite wherever the result entry is finite
    record-final_step  |final_step| of an entry is one of the steps generated for a coordinate the entry
                       differentiates (within 4 eps): Jacobian [i, j, l] -> coordinate j, Gradient / Hessdiag
                       entry j -> j, Hessian [i, j] -> coordinate i or j (the library stores the step of the
                       column coordinate j, LogRule._vstack broadcasts the step vector along the last axis; only
                       membership in the steps of the two coordinates involved is asserted)
    record-index       0 <= index < k_est * result.size
(a) honesty, per entry, asserted when reach = width * h_max <= rho_cert/4 for every ridge factor
    |lib - exact| <= K_HONEST * error_estimate + floor,   floor = KAPPA * (R + eps * (|exact| + (n+2) cond))
    R = rounding unit of the rule at the reported final step(s) h_f (validated by (c)):
        rules that difference function values (central, central2, forward, backward, complex Hessian/Hessdiag,
        complex Jacobian of order 4):
            R = eps * amp * (c_D * M_e(D, w h_f) + (n+2) * noise_e) / prod(h_f)
            c_D = order! for one coordinate, 1 for a mixed partial; M_e = majorant of multivar (>= sup |f| and
            |intermediates| on the reached box); noise_e = rounding of the ridge arguments; prod(h_f) = h_j for
            first derivatives, h_j^2 for Hessdiag, h_i h_j for Hessian; amp = sum |rule weights| >= 1
            (Hessian: 4, the number of function values per difference)
        cancellation-free rules (complex Jacobian/Gradient of order 2, multicomplex):
            R = eps * amp * S_order(e, D; [w h_f, certified reach])     (relative rounding of the derivative
            of every sub-expression, multivar.scale)
    cond = sensitivity of the exact derivative to the rounding of the ridge arguments (multivar.cond).
    Violation details carry k_est (estimates left after the difference rule), cls, method, ops,
    tanh_arg_over_300 so that the known findings F10 (k_est = 1) and F9 (multicomplex x arctan/arcsin/arccos)
    can be matched.
"""
import math
import sys
import warnings

import numpy as np
from hypothesis import strategies as st

from nverif.engine import Skip, Violation
from nverif.oracle import multivar as mv
from nverif.props.c04 import known_class, tanh_over_300

EPS = 2.0 ** -52
K_HONEST = 1e5
KAPPA = 1e3
OVERFLOW = 1e150
J_METHODS = ['central', 'forward', 'backward', 'complex', 'multicomplex']
H_METHODS = ['central', 'central2', 'forward', 'backward', 'complex', 'multicomplex']
KINDS = ('affine', 'quadratic', 'ridge', 'ridge', 'ridge', 'ridge')


@st.composite
def mv_case(draw):
    cls = draw(st.sampled_from(['Gradient', 'Jacobian', 'Jacobian', 'Hessdiag', 'Hessian', 'Hessian']))
    if cls == 'Jacobian':
        base = draw(mv.mv_cases(kinds=KINDS))
        method = draw(st.sampled_from(J_METHODS))
        order = draw(st.sampled_from([2, 4]))
    elif cls == 'Gradient':
        base = draw(mv.mv_cases(containers=('0d',), kinds=KINDS))
        method = draw(st.sampled_from(J_METHODS))
        order = draw(st.sampled_from([2, 4]))
    else:
        base = draw(mv.mv_cases(n=st.integers(1, 6), m=1, containers=('0d', '0d', 'len1'),
                                kinds=('quadratic', 'ridge', 'ridge', 'ridge')))
        method = draw(st.sampled_from(H_METHODS))
        if cls == 'Hessdiag':
            order = draw(st.sampled_from([2, 4, 6]))
        else:
            order = 1 if method in ('forward', 'backward') else 2        # the Hessian's fixed order
    return dict(base, family='mv', cls=cls, method=method, order=order, step=draw(mv.step_specs(method)),
                xform=draw(st.sampled_from(['list', 'array'])))


def width(cls, method):
    if cls == 'Hessian':
        return 2.0
    if cls == 'Hessdiag':
        return 2.0 if method in ('central2', 'multicomplex') else 1.0
    return 2.0 if method == 'multicomplex' else 1.0


def difference_forming(cls, method, order):
    if method == 'multicomplex':
        return False
    if method == 'complex' and cls in ('Jacobian', 'Gradient'):
        return order >= 4
    return True


def _classify(case, an):
    ops = an.ops()
    return ops, tanh_over_300(case['prog'], an)


def check_mv(case, ctx):
    import numdifftools as nd
    prog, x, cls, method, order = case['prog'], case['x'], case['cls'], case['method'], case['order']
    n = prog['n']
    try:
        an = mv.MVAnalysis(prog, x)
    except mv.MVDomainError:
        raise Skip('point outside the certified domain of a ridge factor')
    if an.min_rho() <= 1e-7 * max(1.0, max(abs(v) for v in x)):
        raise Skip('certified radius below 1e-7*|x|')
    f = mv.MVFunction(prog)
    x_arr = np.array(x, dtype=float)
    x_in = [float(v) for v in x] if case['xform'] == 'list' else x_arr
    w = width(cls, method)
    klass = getattr(nd, cls)
    ops, tanh_big = _classify(case, an)
    second = cls in ('Hessdiag', 'Hessian')

    def build(scale, base):
        step, opts = mv.make_step(nd, case['step'], method, scale, base)
        kw = dict(method=method, full_output=True)
        if cls != 'Hessian':
            kw['order'] = order
        kw.update(opts)
        return klass(f, step=step, **kw)

    what = '%s(method=%s, order=%d, full_output=True)' % (cls, method, order)
    with warnings.catch_warnings():
        warnings.simplefilter('ignore')
        with np.errstate(all='ignore'):
            with ctx.lib('no-exception', 'constructing %s' % what):
                res = mv.fit_steps(build, x_arr, an.reach_limit(), w, case['step'].get('u', 0.0))
            if isinstance(res, str):
                raise Skip(res)
            d, steps, ratio, scale, _base = res
            hs = np.array([np.ravel(s) for s in steps])                   # steps x n
            if an.max_majorant(w * float(hs.max())) > OVERFLOW:
                raise Skip('function values exceed 1e150 on the sampled region (overflow)')
            if cls == 'Hessian':
                k_est, amp = len(steps), 4.0
            else:
                rule = np.asarray(d.fd_rule.rule(ratio))
                k_est = len(steps) - int(rule.size) + 1
                amp = max(float(np.sum(np.abs(rule))), 1.0)
            if k_est < 1:
                raise Skip('fewer steps than the rule needs (misuse, see C11)')
            with ctx.lib('no-exception', '%s(x) for a %s output' % (what, prog['container'])):
                out = d(x_in)
            fx = f(x_arr)
    if not (isinstance(out, tuple) and len(out) == 2):
        raise Violation('record-shape', 'full_output=True did not return (value, info)', cls=cls, method=method)
    val, info = np.asarray(out[0]), out[1]
    kclass = 'k1' if k_est < 2 else 'k2+'
    ctx.count('cls=%s|%s' % (cls, method))
    ctx.count('k_est=%s' % mv.kbucket(k_est))
    ctx.count('step=%s' % case['step']['kind'])
    ctx.count('kind=%s' % case['kind'])
    ctx.count('container=%s' % prog['container'])
    base_details = dict(cls=cls, method=method, k_est=k_est, ops=ops, tanh_arg_over_300=tanh_big)

    # ---------------------------------------------------------------- (c) record consistency
    fv = np.asarray(info.f_value)
    fxa = np.asarray(fx)
    with np.errstate(all='ignore'):
        same = np.array_equal(fv.ravel(), fxa.ravel(), equal_nan=True) if fv.size == 1 and fxa.size == 1 \
            else np.array_equal(fv, fxa, equal_nan=True)
    if not same:
        raise Violation('record-f_value', 'info.f_value != f(x)', f_value=fv, fx=fxa, **base_details)
    est = np.asarray(info.error_estimate)
    fstep = np.asarray(info.final_step)
    idx = np.asarray(info.index)
    for name, arr in (('error_estimate', est), ('final_step', fstep), ('index', idx)):
        if arr.size != val.size:
            raise Violation('record-shape', '%s has %d entries for %d result entries (shapes %s vs %s)'
                            % (name, arr.size, val.size, arr.shape, val.shape), **base_details)
        if name != 'index':
            try:
                np.broadcast_shapes(arr.shape, val.shape)
            except ValueError:
                raise Violation('record-shape', '%s shape %s is not broadcast-compatible with the result shape %s'
                                % (name, arr.shape, val.shape), **base_details)
    # canonical layout: rows = output elements (or first Hessian index), columns = coordinate
    if second:
        want = n if cls == 'Hessdiag' else n * n
    else:
        want = len(an.elements) * n
    if val.size != want:
        raise Violation('record-shape', 'result has %d entries, expected %d (shape %s)' % (val.size, want, val.shape),
                        **base_details)

    def canon(a):
        a = np.asarray(a).reshape(val.shape)
        if cls == 'Hessdiag':
            return a.reshape(1, n)
        if cls == 'Hessian':
            return a.reshape(n, n)
        if a.ndim == 3:
            return a.transpose(0, 2, 1).reshape(-1, n)
        return a.reshape(-1, n)

    V, E, FS = canon(val), np.abs(canon(est)), np.abs(canon(fstep).astype(float))
    fin = np.isfinite(V)
    bad = fin & ~(np.isfinite(E) & (canon(est) >= 0))
    if np.any(bad):
        r, c = np.argwhere(bad)[0]
        raise Violation('record-estimate', 'error_estimate %r for the finite result %r (entry %d,%d)'
                        % (canon(est)[r, c], V[r, c], r, c), **base_details)

    def member(a, j):
        return bool(np.any(np.abs(hs[:, j] - a) <= 4 * EPS * hs[:, j]))
    for r in range(V.shape[0]):
        for c in range(V.shape[1]):
            coords = (c,) if cls != 'Hessian' else (r, c)
            a = FS[r, c]
            if not any(member(a, j) for j in coords):
                lo = min(hs[:, j].min() for j in coords)
                hi = max(hs[:, j].max() for j in coords)
                kind = 'outside the generated range [%r, %r]' % (lo, hi) if not (lo * (1 - 4 * EPS) <= a <= hi * (
                    1 + 4 * EPS)) else 'inside the range but not one of the steps generated for coordinate %s' % (coords,)
                raise Violation('record-final_step', 'final_step %r of entry (%d,%d): %s' % (a, r, c, kind),
                                **base_details)
    if cls == 'Hessian' and n > 1:
        # not asserted (an implementation detail): the library reports the step of the column coordinate
        if not all(member(FS[r, c], c) for r in range(n) for c in range(n)):
            ctx.count('Hessian final_step is not the step of the column coordinate (counted, not asserted)')
    ii = idx.ravel()
    if np.any(ii < 0) or np.any(ii >= max(k_est, 1) * val.size):
        raise Violation('record-index', 'index %r does not address one of the %d x %d estimates'
                        % (ii.tolist()[:8], k_est, val.size), **base_details)

    # ---------------------------------------------------------------- (a) honesty
    if second:
        Ex = np.diag(an.hessian()).reshape(1, n) if cls == 'Hessdiag' else an.hessian()
    else:
        Ex = an.jacobian()
        if Ex.ndim == 3:
            Ex = Ex.transpose(0, 2, 1).reshape(-1, n)
    if not np.all(fin):
        raise Violation('finite', '%s contains non-finite entries (every sample point is inside the certified '
                        'domain)' % cls, **base_details)
    if np.iscomplexobj(V) and np.any(np.imag(V) != 0):
        raise Violation('real', '%s is complex for a real function' % cls, **base_details)
    V = np.real(V)
    reach_ok = w * float(hs.max()) <= an.reach_limit() / 2.0
    dform = difference_forming(cls, method, order)
    reported = second and method == 'multicomplex' and known_class(
        dict(clause='envelope', method='multicomplex', ops=ops, negative_real_part=an.negative_base(),
             tanh_arg_over_300=tanh_big))
    nontrivial = False
    worst = None
    for r in range(V.shape[0]):
        for c in range(V.shape[1]):
            if cls == 'Hessian':
                e, dirs, hh = 0, (r, c), FS[r, c] * FS[c, r]
            elif cls == 'Hessdiag':
                e, dirs, hh = 0, (c, c), FS[r, c] ** 2
            else:
                e, dirs, hh = r, (c,), FS[r, c]
            nd_order = len(dirs)
            hgeo = hh ** (1.0 / nd_order)
            if dform:
                rad = min(w * hgeo, an.reach_limit(dirs), mv.R_CAP)
                M = float(an.majorant(e, dirs, [rad])[0])
                cD = math.factorial(nd_order) if len(set(dirs)) == 1 else 1.0
                R = EPS * amp * (cD * M + (n + 2) * an.noise(e)) / hh
            else:
                S = an.scale(nd_order, e, dirs, w * hgeo, math.inf)
                R = EPS * amp * S if S is not None else math.inf
            if not math.isfinite(R):
                ctx.count('scale unavailable')
                continue
            exact = float(Ex[r, c])
            err = abs(V[r, c] - exact)
            floor = KAPPA * (R + EPS * (abs(exact) + (n + 2) * an.cond(e, dirs)))
            ee = float(E[r, c])
            if not reach_ok:
                continue
            excess = err - floor
            ratio = excess / ee if ee > 0 else (0.0 if excess <= 0 else math.inf)
            if worst is None or ratio > worst[0]:
                worst = (ratio, r, c, err, ee, floor, exact, V[r, c])
            if K_HONEST * ee + floor <= abs(exact) / 2:
                nontrivial = True
    if not reach_ok:
        ctx.count('honesty not asserted: reach > rho/4')
    elif worst is not None:
        ratio, r, c, err, ee, floor, exact, lv = worst
        ctx.track('(err-floor)/est|%s|%s|%s%s' % (cls, method, kclass, '|F9-class' if reported else ''), ratio,
                  dict(prog=mv.describe(prog), x=x, order=order, step=case['step'], entry=[r, c], lib=lv,
                       exact=exact, est=ee, floor=floor, k_est=k_est))
        if ratio > K_HONEST:
            raise Violation('honesty', '%s %s order=%d k_est=%d entry (%d,%d): |err|=%.3g but error_estimate=%.3g '
                            '(floor %.3g) lib=%r exact=%r' % (cls, method, order, k_est, r, c, err, ee, floor, lv,
                                                             exact), ratio=ratio, **base_details)
    if nontrivial and reach_ok:
        ctx.nontriv(dict(p=prog, x=x, c=cls, m=method, o=order, s=case['step']))
        ctx.count('nontrivial|%s|%s' % (cls, kclass))
    ctx.sample(dict(cls=cls, method=method, order=order, prog=mv.describe(prog), x=x, step=case['step'], k_est=k_est,
                    lib=val, error_estimate=est, final_step=fstep))


def mv_finding_key(case, violation):
    d = getattr(violation, 'details', {}) or {}
    key = {'clause': violation.clause, 'family': 'mv', 'cls': None, 'method': None, 'k_est': d.get('k_est'),
           'ops': sorted(d.get('ops') or []), 'tanh_arg_over_300': bool(d.get('tanh_arg_over_300', False)),
           'exception': d.get('exception')}
    if case is not None:
        key.update(cls=case.get('cls'), method=case.get('method'))
        if not key['ops']:
            try:
                an = mv.MVAnalysis(case['prog'], case['x'], K=4)
                key['ops'], key['tanh_arg_over_300'] = sorted(an.ops()), tanh_over_300(case['prog'], an)
            except Exception:
                pass
    return key


# ----------------------------------------------------------------------------------------------
# self test:  python -m nverif.props.c02mv N SEED
# ----------------------------------------------------------------------------------------------

def selftest(n_cases, seed, verbose=True):
    """Run n_cases drawn cases in-process (no engine, no shrinking); returns (counts, ctx)."""
    import hypothesis
    from collections import Counter
    from hypothesis import HealthCheck, Phase, given, settings
    from nverif.engine import Ctx
    ctx = Ctx('C02', 'selftest', seed)
    counts = Counter()
    examples = {}

    @hypothesis.seed(seed)
    @settings(max_examples=n_cases, database=None, deadline=None, phases=[Phase.generate],
              suppress_health_check=list(HealthCheck), print_blob=False)
    @given(mv_case())
    def run(case):
        try:
            check_mv(case, ctx)
            counts['ok'] += 1
        except Skip as s:
            counts['skip: ' + s.reason] += 1
        except Violation as v:
            key = mv_finding_key(case, v)
            f9 = ' F9-ops' if key['method'] == 'multicomplex' and set(key['ops']) & {'arctan', 'arcsin', 'arccos'} \
                else ''
            tag = 'VIOLATION %s | %s %s k_est=%s%s | %s' % (
                v.clause, key['cls'], key['method'], key['k_est'],
                f9, v.message[:60])
            short = 'VIOLATION %s | %s %s %s%s' % (
                v.clause, key['cls'], key['method'], 'k1' if (key['k_est'] or 0) < 2 else 'k2+', f9)
            counts[short] += 1
            examples.setdefault(short, tag)
    run()
    if verbose:
        for k, v in sorted(counts.items()):
            print('%6d  %s' % (v, k))
            if k in examples:
                print('        e.g. %s' % examples[k])
        print('distinct non-trivial: %d' % len(ctx.nontrivial))
        for k, (v, _s) in sorted(ctx.maxima.items()):
            print('  worst %-60s %.3g' % (k, v))
    return counts, ctx


if __name__ == '__main__':
    selftest(int(sys.argv[1]) if len(sys.argv) > 1 else 200, int(sys.argv[2]) if len(sys.argv) > 2 else 0)
