"""C18 - Limit and Residue recover removable singularities and poles.

f(z) = g(z) * s(z - z0) with g analytic (closed-form family of nverif.oracle.taylorfam, or an
expression program of nverif.oracle.exprs with a ball-arithmetic certificate of analyticity on
|z - z0| <= rho_cert, rho_cert >= 1) and s one of six well-conditioned removable singularities of
limit 1.  Oracle: g(z0) in 60-digit mpmath (closed forms / jets), times the other kernel's value
when a second singular point is present.  Residue: f(z) = g(z) / (z - z0)^p.
"""
import cmath
import math
import re

import mpmath as mp
import numpy as np
from hypothesis import strategies as st

from nverif.engine import Prop, Violation
from nverif.oracle import exprs
from nverif.oracle import taylorfam as tf
from nverif.oracle.jets import JetDomainError

EPS = 2.0 ** -52
K_EST = 100.0          # multiple of the returned error_estimate
KAPPA = 1.0e3          # multiple of eps * scale
BASE_DEFAULT = EPS ** (1.0 / 1.2)        # CStepGenerator default base step (scale = 1.2)
MIN_BASE = 1e-9        # smallest explicit base step the generator constructs

# name -> (numpy kernel, mpmath kernel, distance from w = 0 to the kernel's nearest singularity)
KERNELS = {
    'sin(w)/w': (lambda w: np.sin(w) / w, lambda w: mp.sin(w) / w, math.inf),
    'expm1(w)/w': (lambda w: np.expm1(w) / w, lambda w: mp.expm1(w) / w, math.inf),
    'log1p(w)/w': (lambda w: np.log1p(w) / w, lambda w: mp.log1p(w) / w, 1.0),
    'w/sin(w)': (lambda w: w / np.sin(w), lambda w: w / mp.sin(w), math.pi),
    'tan(w)/w': (lambda w: np.tan(w) / w, lambda w: mp.tan(w) / w, math.pi / 2),
    'w/expm1(w)': (lambda w: w / np.expm1(w), lambda w: w / mp.expm1(w), 2 * math.pi),
}
ENTIRE_KERNELS = ['sin(w)/w', 'expm1(w)/w']
TREE_UNARY = ('exp', 'sin', 'cos', 'sinh', 'cosh', 'tanh', 'arctan', 'arcsinh', 'log1p', 'expm1',
              'sqrt', 'log')


# --------------------------------------------------------------------------------------
# g: numpy callable, exact value, certified radius, scale
# --------------------------------------------------------------------------------------

def _par(v):
    c = tf.cx(v)
    return c.real if c.imag == 0 else c


def _fam_np(spec, z):
    """numpy evaluation of the closed-form family the way a user would write it: real parameters
    stay real, so a real z gives a real value."""
    t = spec[0]
    if t == 'exp':
        return np.exp(_par(spec[1]) * z)
    if t == 'cos':
        return np.cos(_par(spec[1]) * z)
    if t == 'inv':
        return 1.0 / (_par(spec[1]) - z)
    if t == 'poly':
        res = 0.0 * z + _par(spec[1][-1])
        for c in spec[1][-2::-1]:
            res = res * z + _par(c)
        return res
    if t == 'mul':
        return _fam_np(spec[1], z) * _fam_np(spec[2], z)
    if t == 'add':
        return _fam_np(spec[1], z) + _fam_np(spec[2], z)
    raise ValueError(t)


class G(object):
    """g with everything the oracle needs at a base point."""

    def __init__(self, gdesc):
        self.desc = gdesc
        if gdesc['kind'] == 'fam':
            self.spec = gdesc['spec']
            self.np = lambda z, _s=self.spec: _fam_np(_s, z)
            self.text = tf.show(self.spec)
        else:
            self.tree = gdesc['tree']
            self.np = exprs.np_function(self.tree)
            self.text = re.sub(r'\bx\b', 'z', exprs.show(self.tree))

    def at(self, z0):
        """-> (exact g(z0) as mpc, certified radius, scale) ; raises JetDomainError."""
        zc = complex(*z0)
        if self.desc['kind'] == 'fam':
            c = tf.exact_coefs(self.spec, z0, 2)
            rho = tf.distance(self.spec, zc)
            parts = [abs(c[0]), abs(c[1])]
            for a in tf.atoms(self.spec):                      # cancellation inside sums/products
                ca = tf.exact_coefs(a, z0, 2)
                parts.append(abs(ca[0]))
                if a[0] == 'poly':
                    parts.append(mp.fsum(abs(tf.mpc_(v)) * abs(tf.mpc_(z0)) ** j
                                         for j, v in enumerate(a[1])))
            return c[0], rho, float(max(parts))
        x = zc if z0[1] != 0 else float(z0[0])
        an = exprs.Analysis(self.tree, x, K=3)
        jets = an.jets
        scale = max([float(abs(j.c[0])) for j in jets] + [float(abs(jets[-1].c[1]))])
        return mp.mpc(jets[-1].c[0]), an.rho_cert, scale


# --------------------------------------------------------------------------------------
# strategy
# --------------------------------------------------------------------------------------

def _r4(v):
    return float('%.4g' % v)


@st.composite
def _g_family(draw, zc, entire_mild):
    kinds = ['exp', 'poly', 'cos+2'] + ([] if entire_mild else ['inv', 'inv', 'exp*inv'])
    kind = draw(st.sampled_from(kinds))
    if kind == 'exp':
        a = draw(st.sampled_from([-1.0, 1.0])) * _r4(10.0 ** draw(st.floats(-0.5, 0.0 if entire_mild else 0.4)))
        return ['exp', a]
    if kind == 'poly':
        deg = draw(st.integers(0, 5))
        return ['poly', [float(draw(st.integers(-9, 9))) for _ in range(deg)] + [float(draw(st.sampled_from([1, -1, 2, 3])))]]
    if kind == 'cos+2':
        return ['add', ['cos', 1.0], ['poly', [2.0]]]
    # 1/(b - z): "1/(3 + z)" generalised, pole at distance 2 .. 6 from z0
    d = draw(st.floats(2.0, 6.0))
    t = draw(st.floats(-math.pi, math.pi)) if zc.imag != 0 else draw(st.sampled_from([0.0, math.pi]))
    b = zc + d * cmath.exp(1j * t)
    inv = ['inv', [_r4(b.real), _r4(b.imag) if zc.imag != 0 else 0.0]]
    if kind == 'inv':
        return inv
    return ['mul', ['exp', _r4(draw(st.floats(-1.0, 1.0)))], inv]


@st.composite
def c18_case(draw):
    complex_z0 = draw(st.integers(0, 2)) == 0
    if complex_z0:
        z0 = [_r4(draw(st.floats(-1, 1))), _r4(draw(st.floats(-1, 1)))]
        if z0[1] == 0:
            z0[1] = 0.5
    else:
        z0 = [draw(st.one_of(st.sampled_from([0.0, 1.0, -1.0, 3.0, -3.0]), st.floats(-3, 3).map(_r4))), 0.0]
    zc = complex(*z0)
    task = draw(st.sampled_from(['limit', 'limit', 'residue']))
    default_steps = draw(st.integers(0, 3)) == 0
    # ---- g -------------------------------------------------------------------------
    gdesc = None
    if not default_steps and draw(st.booleans()):
        tree = draw(exprs.expr_trees(unary=TREE_UNARY, max_leaves=4, max_size=9,
                                     int_powers=(2, 3, -1, -2), real_powers=False))
        try:
            an = exprs.Analysis(tree, zc if complex_z0 else z0[0], K=3)
            ok = an.rho_cert >= 1.0 and abs(an.jets[-1].c[0]) < 1e6
        except (JetDomainError, ValueError, ZeroDivisionError, OverflowError):
            ok = False
        if ok:
            gdesc = {'kind': 'tree', 'tree': tree}
    if gdesc is None:
        gdesc = {'kind': 'fam', 'spec': draw(_g_family(zc, default_steps))}
    # ---- kernel, configuration --------------------------------------------------------
    method = draw(st.sampled_from(['above', 'below']))
    path = draw(st.sampled_from(['radial', 'radial', 'spiral']))
    step_ratio = draw(st.sampled_from([2.0, 4.0, 8.0, 16.0]))
    case = dict(task=task, g=gdesc, z0=z0, method=method, path=path, step_ratio=step_ratio)
    if task == 'limit':
        case['kernel'] = draw(st.sampled_from(ENTIRE_KERNELS if default_steps else sorted(KERNELS)))
        case['order'] = draw(st.integers(1, 8))
        layout = draw(st.sampled_from(['scalar', 'array', 'array', 'array2d', 'regular-only']))
        case['layout'] = layout
        if layout != 'scalar':
            npts = draw(st.integers(1, 5))
            offs = [0.0 if (layout != 'regular-only' and draw(st.booleans()))
                    else draw(st.sampled_from([-1.0, 1.0])) * _r4(draw(st.floats(0.01, 0.3)))
                    for _ in range(npts)]
            if layout != 'regular-only' and 0.0 not in offs:
                offs[draw(st.integers(0, npts - 1))] = 0.0
            case['offsets'] = offs
            case['as_list'] = draw(st.booleans())
        second = None
        if (layout in ('array', 'array2d') and gdesc['kind'] == 'fam' and gdesc['spec'][0] != 'inv'
                and gdesc['spec'][0] != 'mul' and draw(st.booleans())):
            delta = draw(st.sampled_from([-1.0, 1.0])) * _r4(draw(st.floats(0.31, 0.6)))
            second = {'delta': delta, 'kernel2': draw(st.sampled_from(ENTIRE_KERNELS))}
            case['offsets'] = case['offsets'] + [delta]
        case['second'] = second
    else:
        p = draw(st.integers(1, 3))
        case['p'] = p
        case['order'] = draw(st.one_of(st.none(), st.integers(p + 1, 8)))
        case['layout'] = draw(st.sampled_from(['scalar', 'scalar', 'array', 'array2d']))
        if case['layout'] != 'scalar':
            case['offsets'] = [0.0] * draw(st.integers(1, 3))
            case['as_list'] = draw(st.booleans())
    # ---- steps ---------------------------------------------------------------------
    if default_steps:
        case['steps'] = None
    else:
        # explicit: largest step = (rho/2) * 10^-u with rho = min(certified radius of g, kernel
        # radius, 8) resolved in check(); the number of steps is drawn, the base step follows
        case['steps'] = {'u': draw(st.floats(0.0, 1.5)), 'num_steps': draw(st.integers(3, 20))}
    if path == 'spiral':
        case['dtheta'] = draw(st.sampled_from([None, None, 0.2, math.pi / 4]))
    return case


def _model_steps(base, ratio, num_steps, path, dtheta):
    rc = ratio * (cmath.exp(1j * dtheta) if path == 'spiral' else 1.0)
    return [base * rc ** i for i in range(num_steps)]


class C18(Prop):
    id = 'C18'
    title = 'Limit and Residue recover removable singularities and poles'
    rule = ('f(z) = g(z) s(z - z0) written with numpy (f(z0) = 0/0 = NaN, finite elsewhere). g: exp(a z), '
            'polynomials, cos z + 2, 1/(b - z) with the pole 2..6 away, exp(a z)/(b - z), or an '
            'expression program (nverif.oracle.exprs, <= 4 leaves) whose analyticity on |z - z0| <= 1 '
            'is certified by ball arithmetic.  s in {sin w/w, expm1 w/w, log1p w/w, w/sin w, tan w/w, '
            'w/expm1 w}; 2(1 - cos w)/w^2 is deliberately excluded (ill-conditioned: cancellation, not '
            'a property of Limit).  z0 real in [-3, 3] (2/3) or complex in the unit square; method '
            'above/below; path radial/spiral (dtheta default, 0.2 or pi/4); order 1..8; step_ratio in '
            '{2, 4, 8, 16}.  Steps: 1/4 library default (base EPS^(1/1.2) log(e-1+|z0|), up to ~25 '
            'away: only entire g of mild growth with the two entire kernels), 3/4 explicit '
            '(step=base, num_steps=N with N in 3..20, largest step = rho/2 * 10^-U(0,1.5), rho = min('
            'certified radius of g, radius of the kernel, 8), N reduced until base >= 1e-9).  Input: '
            'scalar, 1-d / 2-d arrays or lists mixing z0 with regular points z0 + delta, |delta| in '
            '[0.01, 0.3], optionally a second singular point z0 + delta2 (second entire kernel), or '
            'regular points only.  Residue: f = g/(z - z0)^p, p in 1..3, order default or p+1..8, '
            'scalar or array of z0.  Non-trivial = a singular point is present, |g(z0)| >= 1e-3 scale '
            'and the raw sample at the first (largest) step, f(z0 +- h_max) (times h^p for Residue), is '
            'more than 100 tolerances away from the limit, i.e. extrapolation was needed (the stricter '
            '"even the closest sample is" is counted as a class); distinct by the whole case.  Clauses: '
            'no exception; value / error_estimate / final_step have the shape of an array input (for a '
            'scalar input Limit returns the value with shape (1,): counted, the record promises no '
            'shape there; info.index is a flat internal index: counted); the evaluation points lie on '
            'the side named by method (closest point always, every point on a radial path at real z0); '
            'regular entries equal f(z) exactly with error_estimate 0; singular entries satisfy '
            '|value - exact| <= K*error_estimate + kappa*eps*scale.')
    assumptions = (
        'g(z0) from closed forms / jet recurrences in 60-digit mpmath',
        'ball arithmetic certificate (conservative) for the expression programs; poles of the '
        'closed-form family placed by construction',
        'scale = (1 + |z0|) * max(|value of every sub-expression of g at z0|, |g\'(z0)|) * (value of '
        'the second kernel if any); K and kappa calibrated >= 10x above the worst ratio over 8 seeds',
        'the approach side is observed on the recorded evaluation points of f')
    constants = {'K_EST': K_EST, 'KAPPA': KAPPA, 'MIN_BASE': MIN_BASE}
    examples = {'quick': 300, 'thorough': 4000}

    def strategy(self, tier):
        return c18_case()

    # ---------------------------------------------------------------------------------
    def check(self, case, ctx):
        from numdifftools.limits import Limit, Residue
        g = G(case['g'])
        z0 = case['z0']
        zc = complex(*z0)
        real_z0 = z0[1] == 0
        z0v = float(z0[0]) if real_z0 else zc
        try:
            g0, rho_g, gscale = g.at(z0)
        except JetDomainError:
            ctx.skip('g not analytic at z0 (jet domain)')
        if not (rho_g >= 1.0):
            ctx.skip('certified radius of g below 1')
        task = case['task']
        ratio, path, method = case['step_ratio'], case['path'], case['method']
        dtheta = case.get('dtheta') or math.pi / 8
        sign = 1.0 if method == 'above' else -1.0
        second = case.get('second')
        # ---- singular points and exact limits ---------------------------------------------
        offsets = case.get('offsets', [0.0]) if case['layout'] != 'scalar' else [0.0]
        if task == 'limit':
            knp, kmp, krad = KERNELS[case['kernel']]
        else:
            p = int(case['p'])
            knp, kmp, krad = None, None, math.inf
        sing = {0.0: (g0, rho_g, gscale)}                 # offset -> (exact limit, radius, scale)
        rho_here = min(rho_g, krad, 8.0)
        if second is not None:
            delta = second['delta']
            k2np, k2mp, _ = KERNELS[second['kernel2']]
            zb = [z0[0] + delta, z0[1]]                    # the float point z0 + delta
            zbv = z0v + delta
            dex = mp.mpf(zb[0]) - mp.mpf(z0[0])            # exact distance between the two floats
            gb, rho_b, gscale_b = g.at(zb)
            s2a = k2mp(-dex)                               # second kernel seen from z0
            s1b = kmp(dex)                                 # first kernel seen from z0 + delta
            sing = {0.0: (g0 * s2a, min(rho_g, krad), gscale * max(1.0, float(abs(s2a)))),
                    delta: (gb * s1b, min(rho_b, krad - abs(delta)), gscale_b * max(1.0, float(abs(s1b))))}
            rho_here = min(rho_here, rho_b, krad - abs(delta))
        # ---- steps ----------------------------------------------------------------------
        kw = dict(method=method, full_output=True, step_ratio=ratio, path=path)
        if case.get('dtheta') is not None:
            kw['dtheta'] = case['dtheta']
        if case['steps'] is None:
            step = None
            num_steps = 2 * int(round(16.0 / math.log(ratio))) + 1
            base = BASE_DEFAULT
            reach_limit = math.inf
            ctx.count('steps=default')
        else:
            hmax = 0.5 * rho_here * 10.0 ** (-case['steps']['u'])
            num_steps = int(case['steps']['num_steps'])
            while num_steps > 2 and hmax / ratio ** (num_steps - 1) < MIN_BASE:
                num_steps -= 1
            step = base = hmax / ratio ** (num_steps - 1)
            kw['num_steps'] = num_steps
            reach_limit = 0.5 * rho_here
            ctx.count('steps=explicit')
        if task == 'residue':
            kw['pole_order'] = p
            if case['order'] is not None:
                kw['order'] = int(case['order'])
        else:
            kw['order'] = int(case['order'])
        # ---- the function --------------------------------------------------------------
        calls = []
        gnp = g.np

        def f(z):
            z = np.asarray(z)
            calls.append(np.array(z, copy=True))
            with np.errstate(all='ignore'):
                w = z - z0v
                if task == 'residue':
                    return gnp(z) / w ** p
                val = gnp(z) * knp(w)
                if second is not None:
                    val = val * k2np(z - zbv)
                return val

        # ---- input ----------------------------------------------------------------------
        pts = [z0v + o for o in offsets]
        layout = case['layout']
        if layout == 'scalar':
            x = z0v
        else:
            x = np.array(pts)
            if layout == 'array2d':
                x = x.reshape(1, -1) if len(pts) % 2 else x.reshape(2, -1)
            if case.get('as_list'):
                x = x.tolist()
        shape = np.shape(x)
        flat_off = list(np.ravel(np.array(offsets))) if layout != 'scalar' else [0.0]
        text = '%s(lambda z: %s, step=%r, %s)(%s)' % (
            'Limit' if task == 'limit' else 'Residue',
            ('(%s) * %s' % (g.text, case['kernel'].replace('w', '(z-z0)')) if task == 'limit'
             else '(%s)/(z-z0)**%d' % (g.text, p))
            + ('' if second is None else ' * %s[z-z0-%r]' % (second['kernel2'], second['delta'])),
            step, ', '.join('%s=%r' % kv for kv in sorted(kw.items()) if kv[0] != 'full_output'),
            'z0=%r%s' % (z0v, '' if layout == 'scalar' else ' + %r' % (offsets,)))
        cls = Limit if task == 'limit' else Residue
        def lands_on_singular_point():
            # with two singular points a sample z + h of one requested point can coincide with the other
            # singular point (|delta| = 0.5 and a step of 0.5, seen at seed 303): f is NaN at a *sample*,
            # which the premise "f = g * s with s a removable singularity at the requested point" excludes
            if second is None:
                return False
            tol = 8 * EPS * (abs(z0v) + abs(second['delta']))      # equal up to the rounding of z + h
            return any(np.any(np.abs(np.ravel(c) - (z0v + o)) <= tol) for c in calls[1:] for o in sing)

        try:
            with ctx.lib('no-exception', text):
                res, info = cls(f, step=step, **kw)(x)
        except Violation:
            if lands_on_singular_point():
                ctx.skip('a sample point lands exactly on the second singular point (f is NaN at a sample)')
            raise
        if lands_on_singular_point():
            ctx.skip('a sample point lands exactly on the second singular point (f is NaN at a sample)')
        ctx.count('task=%s' % task)
        ctx.count('z0=%s' % ('real' if real_z0 else 'complex'))
        ctx.count('path=%s method=%s' % (path, method))
        ctx.count('g=%s' % (case['g']['kind'] if case['g']['kind'] == 'tree' else case['g']['spec'][0]))
        ctx.count('layout=%s' % layout)
        if task == 'limit':
            ctx.count('kernel=%s' % case['kernel'])
        ctx.count('order=%s' % kw.get('order', 'default'))
        ctx.count('step_ratio=%g' % ratio)

        # ---- shapes follow the input -------------------------------------------------------
        est = info.error_estimate
        for name, v in (('value', res), ('error_estimate', est), ('final_step', info.final_step),
                        ('index', info.index)):
            if shape == () and np.size(v) == 1:
                # scalar input: the record does not promise a 0-d result; Limit returns the value
                # with shape (1,) and the info fields with shape () when z0 is singular.  Counted.
                if np.shape(v) != ():
                    ctx.count('scalar input: %s returned with shape %s' % (name, np.shape(v)))
                continue
            if name == 'index' and np.shape(v) != shape:
                # info.index of Residue / Limit.limit is the flat index array of the selected
                # estimates (an internal detail, not reshaped); counted, not asserted
                ctx.count('info.index not reshaped (shape %d-d input)' % len(shape))
                continue
            if np.shape(v) != shape:
                raise Violation('shape', '%s: %s has shape %s for input of shape %s'
                                % (text, name, np.shape(v), shape), field=name, layout=layout)
        res_f = np.ravel(np.asarray(res))
        est_f = np.ravel(np.asarray(est, dtype=float))

        # ---- evaluation points: reach and side ------------------------------------------
        first = calls[0] if calls else None
        sing_idx = [j for j, o in enumerate(flat_off) if o in sing]
        reg_idx = [j for j, o in enumerate(flat_off) if o not in sing]
        lim_calls = calls[1:] if task == 'limit' else calls
        maxoff, minoff, closest, first_off = 0.0, math.inf, None, None
        if sing_idx:
            centres = np.array([z0v + flat_off[j] for j in sing_idx])
            for c in lim_calls:
                c = np.ravel(c)
                if c.shape != centres.shape:
                    continue
                d = c - centres
                a = np.abs(d)
                if first_off is None:
                    first_off = d[0]
                maxoff = max(maxoff, float(a.max()))
                if float(a.min()) < minoff:
                    minoff = float(a.min())
                    closest = d[int(a.argmin())]
            if maxoff > reach_limit * (1 + 1e-5):       # (make_exact rounds the base step by ~1e-16)
                ctx.skip('library stepped outside the constructed reach')
            if closest is not None and minoff > 0:
                if np.sign(np.real(closest)) != sign:
                    raise Violation('side', '%s: method=%r but the closest evaluation point is z0 %+.3g%+.3gj'
                                    % (text, method, np.real(closest), np.imag(closest)), method=method)
                if path == 'radial' and real_z0:
                    for c in lim_calls:
                        d = np.ravel(c) - centres if np.ravel(c).shape == centres.shape else None
                        if d is not None and np.any(np.sign(np.real(d)) != sign):
                            raise Violation('side', '%s: method=%r evaluates f on the other side of z0'
                                            % (text, method), method=method)

        # ---- regular points: f's own value, error estimate 0 -----------------------------
        if task == 'limit':
            with np.errstate(all='ignore'):
                own = np.ravel(np.asarray(f(np.asarray(x))))
            calls.pop()
            for j in reg_idx:
                same = (np.real(res_f[j]) == np.real(own[j]) and np.imag(res_f[j]) == np.imag(own[j]))
                if not same or est_f[j] != 0:
                    raise Violation('regular-point', '%s: entry %d is a regular point, f = %r, returned %r '
                                    'with error_estimate %r' % (text, j, own[j], res_f[j], est_f[j]),
                                    layout=layout, n_singular=len(sing_idx))
            ctx.count('regular entries', len(reg_idx))
        elif reg_idx:
            raise AssertionError('residue cases have no regular points')

        # ---- singular points: the limit -----------------------------------------------------
        nontrivial = strict = False
        for j in sing_idx:
            exact, _rho, sc = sing[flat_off[j]]
            scale = (1.0 + abs(zc)) * sc
            got = complex(res_f[j])
            e = float(est_f[j])
            err = float(abs(mp.mpc(got) - exact)) if np.isfinite(got) else math.inf
            tol = K_EST * e + KAPPA * EPS * scale
            ratio_ = err / tol if tol > 0 else (0.0 if err == 0 else math.inf)
            summ = dict(call=text, entry=j, got=got, exact=complex(exact), err=err, estimate=e, scale=scale)
            if not (ratio_ <= 1.0):
                raise Violation('limit-accuracy' if task == 'limit' else 'residue-accuracy',
                                '%s: entry %d = %r, exact %r, |err| = %.3g > %g*estimate(%.3g) + %g*eps*scale(%.3g)'
                                % (text, j, got, complex(exact), err, K_EST, e, KAPPA, scale),
                                err=err, estimate=e, scale=scale, task=task, steps='default' if step is None else 'explicit',
                                path=path, method=method, layout=layout, real_z0=real_z0,
                                kernel=case.get('kernel'), order=kw.get('order'))
            ctx.track('%s err/(K*est + kappa*eps*scale)' % task, ratio_, summ)
            if e > 0 and K_EST * e >= KAPPA * EPS * scale:
                ctx.track('%s err/estimate (estimate-dominated)' % task, err / e, summ)
            else:
                ctx.track('%s err/(eps*scale) (floor-dominated)' % task, err / (EPS * scale) if EPS * scale > 0 else 0.0, summ)
            ctx.record('%s err/estimate' % task, err / e if e > 0 else (0.0 if err == 0 else 1e300))
            # non-trivial: the raw sample at the first (largest) step is far from the limit, i.e.
            # extrapolation was needed; the stricter variant (even the closest sample) is counted
            if first_off is not None and abs(exact) >= 1e-3 * sc:
                for which, off in (('first', first_off), ('closest', closest)):
                    zs = z0v + flat_off[j] + off
                    raw = complex(np.ravel(np.asarray(f(np.asarray(zs))))[0])
                    calls.pop()
                    if task == 'residue':
                        raw = raw * complex(off) ** p
                    if np.isfinite(raw) and abs(mp.mpc(raw) - exact) > 100 * tol:
                        if which == 'first':
                            nontrivial = True
                        else:
                            strict = True
        if sing_idx:
            ctx.count('singular entries', len(sing_idx))
        if nontrivial:
            ctx.nontriv(case)
            ctx.count('non-trivial')
        if strict:
            ctx.count('even the closest raw sample is > 100 tolerances away')
        ctx.sample(dict(call=text, value=[complex(v) for v in res_f], estimate=est_f.tolist(),
                        exact={str(o): complex(v[0]) for o, v in sing.items()}))

    def finding_key(self, case, violation):
        key = {'clause': violation.clause}
        if case is not None:
            key.update(task=case.get('task'), layout=case.get('layout'), path=case.get('path'),
                       method=case.get('method'), kernel=case.get('kernel'),
                       steps='default' if case.get('steps') is None else 'explicit',
                       real_z0=case['z0'][1] == 0, g=case['g']['kind'])
        for name in ('field', 'order', 'n_singular'):
            if name in violation.details:
                key[name] = violation.details[name]
        return key


PROP = C18()
