"""C17 - FFT Taylor coefficients (fornberg.taylor / derivative) are within their reported error.

Oracle: closed-form Taylor coefficients of exp(a z), sin/cos(a z), 1/(b - z), log(b + z),
(b + z)^p and polynomials in 200-digit mpmath (nverif.oracle.taylorfam); Cauchy products and jets
(nverif.oracle.jets) for sums, products and entire-outer compositions.  The distance d from z0 to
the nearest singularity is known by construction (poles / branch points are placed).

Development switch (never set by ./check):  NVERIF_C17_EXPLORE=<comma list of beyond,f7,nominal | 1>
sets defect classes seen on the pinned tree aside so that the rest can be calibrated: "beyond" (a
circle beyond the nearest singularity; the case is skipped the way a known-finding entry would),
"f7" (isolated zero-estimate garbage coefficient), "nominal" (default call reported failed).
"""
import math
import os

import mpmath as mp
import warnings

import numpy as np
from hypothesis import strategies as st

from nverif.engine import Prop, Violation
from nverif.oracle import taylorfam as tf

EPS = 2.0 ** -52
K_EST = 300.0         # multiple of the returned error_estimate
KAPPA = 1.0e3         # multiple of the FFT floor eps * max|f| / R^k (final circle)
SAFETY_MAXF = 1.5     # 256-point sampling of max|f| on the final circle, times this
REL_DERIV = 4 * EPS   # derivative() == taylor() * k!  (relative)
EST_ZERO = 100.0      # an estimate below EST_ZERO * eps*max|f|/R^k is "zero" (finding class only)
DEFAULT_R, DEFAULT_RATIO, DEFAULT_EXTRAP, DEFAULT_MAXITER = 0.0059, 1.6, 3, 30
_FLAG = os.environ.get('NVERIF_C17_EXPLORE', '')
SKIP = {'beyond', 'f7', 'nominal'} if _FLAG in ('1', 'all') else set(t for t in _FLAG.split(',') if t)

N_SMALL = [1, 2, 3, 4, 5, 6, 7, 8, 9, 10, 12, 13, 14, 15, 16, 18, 20]
N_LARGE = [21, 25, 26, 28, 30, 32, 40, 48, 51, 52, 53, 55, 60, 64, 70, 80, 90, 100]


def _r3(v):
    return float('%.4g' % v)


@st.composite
def _scale(draw, lo=-0.5, hi=0.5, allow_complex=True):
    a = draw(st.sampled_from([-1.0, 1.0])) * 10.0 ** draw(st.floats(lo, hi))
    if allow_complex and draw(st.integers(0, 3)) == 0:
        t = draw(st.floats(-math.pi, math.pi))
        return [_r3(abs(a) * math.cos(t)), _r3(abs(a) * math.sin(t))]
    return _r3(a)


@st.composite
def _atom(draw, zc, dlo, kinds):
    kind = draw(st.sampled_from(kinds))
    if kind in ('exp', 'sin', 'cos'):
        return [kind, draw(_scale())]
    if kind == 'poly':
        deg = draw(st.integers(0, 8))
        cs = [draw(st.integers(-9, 9)) * draw(st.sampled_from([1.0, 1.0, 0.25])) for _ in range(deg + 1)]
        if cs[-1] == 0:
            cs[-1] = 1.0
        if draw(st.integers(0, 3)) == 0:
            j = draw(st.integers(0, deg))
            cs[j] = [float(cs[j]), float(draw(st.integers(-9, 9)))]
        return ['poly', cs]
    d = dlo * (10.0 / dlo) ** draw(st.floats(0, 1))        # log-uniform in [dlo, 10]
    if kind == 'inv':
        t = draw(st.floats(-math.pi, math.pi))
        b = zc + d * complex(math.cos(t), math.sin(t))
        return ['inv', [b.real, b.imag]]
    # log / pow: w0 = z0 + b = d e^{i phi}, |phi| <= 1.45  =>  Re w0 > 0, so the principal branch
    # is analytic on the whole open disc |z - z0| < d
    phi = draw(st.floats(-1.45, 1.45))
    b = d * complex(math.cos(phi), math.sin(phi)) - zc
    if kind == 'log':
        return ['log', [b.real, b.imag]]
    p = round(draw(st.floats(-2.5, 3.5)), 2)
    if p == int(p):
        p += 0.5
    return ['pow', [b.real, b.imag], p]


ALL_ATOMS = ['exp', 'sin', 'cos', 'inv', 'log', 'pow', 'poly']
INNER = ['sin', 'cos', 'inv', 'log', 'poly', 'exp']


def _de_alias(a, b):
    """Avoid products that are polynomials (or exponentials slower than the stated range of a) in
    disguise - Hypothesis likes to repeat values: exp(a z) exp(-a z) = 1, (b + z)^p (b + z)^q with
    p + q an integer."""
    if a[0] == 'exp' and b[0] == 'exp' and abs(tf.cx(a[1]) + tf.cx(b[1])) < 0.3:
        b = ['exp', a[1]]           # exp(a z) exp(b z) = exp((a + b) z): keep |a + b| in the range of a
    if a[0] == 'pow' and b[0] == 'pow' and a[1] == b[1] and float(a[2] + b[2]).is_integer():
        b = ['pow', b[1], round(b[2] + 0.25, 2)]
    return a, b


@st.composite
def _spec(draw, zc, dlo, nominal):
    """nominal: non-polynomial by construction and no sums (the property's family has products and
    compositions; a sum with a dominating polynomial is numerically a polynomial)."""
    shapes = ['atom', 'atom', 'atom', 'mul', 'mul', 'comp'] + ([] if nominal else ['add'])
    shape = draw(st.sampled_from(shapes))
    kinds = [k for k in ALL_ATOMS if k != 'poly'] if nominal else ALL_ATOMS
    if shape == 'atom':
        return draw(_atom(zc, dlo, kinds))
    if shape in ('mul', 'add'):
        a = draw(_atom(zc, dlo, kinds))
        b = draw(_atom(zc, dlo, ALL_ATOMS))
        a, b = _de_alias(a, b)
        return [shape, a, b]
    outer = draw(st.sampled_from(['cexp', 'csin', 'ccos']))
    inner = draw(_atom(zc, dlo, [k for k in INNER if not (outer == 'cexp' and k == 'log')]))
    if inner[0] == 'poly':          # keep the growth moderate: degree <= 3, small coefficients
        inner = ['poly', [(c if not isinstance(c, list) else c[0]) * 0.25 for c in inner[1][:4]]]
        if len(inner[1]) < 2 or max(abs(c) for c in inner[1][1:]) < 0.3:
            inner = ['poly', [inner[1][0], 0.5] + inner[1][2:]]     # slope inside the range of a
    return [outer, inner]


@st.composite
def c17_case(draw):
    z0 = [draw(st.floats(-1, 1)), draw(st.floats(-1, 1)) if draw(st.booleans()) else 0.0]
    zc = complex(*z0)
    mode = draw(st.sampled_from(['nominal', 'general', 'general']))
    if mode == 'nominal':
        # the "never degenerate or failed" clause: every default (r, step_ratio, num_extrap,
        # max_iter), n <= 20, non-polynomial, nearest singularity at distance >= 1.5
        spec = draw(_spec(zc, 1.5, True))
        n = draw(st.sampled_from(N_SMALL))
        r = max_iter = step_ratio = num_extrap = None
    else:
        spec = draw(_spec(zc, 0.3, False))
        n = draw(st.sampled_from(N_SMALL + N_SMALL + N_LARGE))
        d = tf.distance(spec, zc)
        hi = min(0.0, math.log10(d / 2.0))
        r = draw(st.one_of(st.none(), st.floats(-5.0, hi).map(lambda u: 10.0 ** u)))
        if r is None and d / 2.0 < DEFAULT_R:      # cannot happen (d >= 0.3); kept for safety
            r = d / 4.0
        step_ratio = draw(st.one_of(st.none(), st.floats(1.2, 3.0)))
        num_extrap = draw(st.one_of(st.none(), st.integers(1, 5)))
        max_iter = draw(st.sampled_from([None, None, 5, 10]))
    return dict(spec=spec, z0=z0, n=n, r=r, step_ratio=step_ratio, num_extrap=num_extrap,
                max_iter=max_iter, mode=mode)


def _kwargs(case):
    kw = {}
    for name in ('r', 'step_ratio', 'num_extrap', 'max_iter'):
        if case.get(name) is not None:
            kw[name] = case[name]
    return kw


def _k_over_m(k, m):
    """k/m when it is a multiple of 1/8 (the FFT indices with exactly cancelling butterflies)."""
    if (8 * k) % m == 0:
        return (8 * k // m) / 8.0
    return 'other'


def _has_sum(spec):
    if spec[0] == 'add':
        return True
    return any(_has_sum(t) for t in spec[1:] if isinstance(t, list) and t and isinstance(t[0], str))


def _numerically_polynomial(spec, z0, deg=8, K=41):
    """Oracle-side: the exact coefficients beyond degree 8 are below 1e-12 of the low ones on the
    unit disc around z0 (the nominal clause only applies when d >= 1.5)."""
    c = [float(abs(v)) for v in tf.exact_coefs(spec, z0, K)]
    return sum(c[deg + 1:]) <= 1e-12 * sum(c[:deg + 1])


def _direction_changes(radii):
    """Number of times the sequence of radii switches between growing and shrinking."""
    signs = [1 if b > a else -1 for a, b in zip(radii, radii[1:]) if b != a]
    return sum(1 for s, t in zip(signs, signs[1:]) if s != t)


class C17(Prop):
    id = 'C17'
    title = 'FFT Taylor coefficients are accurate within their reported error'
    rule = ('Hypothesis draws f from {exp(a z), sin/cos(a z), 1/(b - z), log(b + z), (b + z)^p (p real, '
            'non-integer), polynomials (degree 0..8, degenerate allowed), products of two of these, '
            'exp/sin/cos of one of these, and (general mode only) sums}, a real or complex with |a| in '
            '[0.32, 3.2]; z0 in the square [-1, 1]^2 (half of them real and passed as float); poles / '
            'branch points are placed at a drawn distance d from z0 (log-uniform in [1.5, 10] in nominal '
            'mode, [0.3, 10] otherwise; for log / pow Re(z0 + b) > 0 so the principal branch numpy '
            'evaluates is analytic in the whole disc |z - z0| < d). Nominal mode (1/3): every default '
            '(r = 0.0059, step_ratio 1.6, num_extrap 3, max_iter 30), n in 1..20, non-polynomial, d >= '
            '1.5. General mode: n in 1..100 (two thirds <= 20; the table boundaries 6/7, 12/13, 25/26, '
            '51/52 included), r default or 10^U(-5, min(0, log10(d/2))), step_ratio default or U(1.2, 3), '
            'num_extrap default or 1..5, max_iter default, 5 or 10. The callable counts the circles it '
            'is evaluated on. Non-trivial = status clean (not degenerate, not failed) and '
            '|c_k| R^k >= 1e-6 max|f| on the final circle for at least half of k <= n (the coefficients '
            'are resolvable); distinct by (spec, z0, n, configuration).')
    assumptions = (
        'mpmath at 200 digits evaluates the closed-form coefficients and the jet recurrences exactly '
        'enough (Cauchy products of e.g. exp(a z) exp(b z) lose k*log10((|a|+|b|)/|a+b|) digits: 56 at '
        'k = 39 for a = -0.5233, b = 0.5623, which made a 60-digit oracle 4e-6 wrong); an accuracy '
        'violation is only raised after the oracle was recomputed with 600 digits',
        'max|f| on the final circle is bounded by 1.5 x the maximum over 256 equispaced points '
        '(evaluated with numpy, the callable the user wrote)',
        'K and kappa are calibrated constants: on the tree with the per-stage FFT floor in the error '
        'estimate (fix of F7) the worst err/error_estimate over the 8 calibration seeds is 15, so K = 300 '
        'has 20x head-room and the floor term only matters where the estimate is 0; kappa = 1e3 (the floor '
        'is the one of the property text, on the *final* circle); cases where a circle went beyond the '
        'nearest singularity are tracked apart',
        '"iteration cap reached" is observed as: the function was evaluated on max_iter circles '
        '(counted by the callable itself). Asserted: failed => max_iter circles and '
        'info.iterations == max_iter - 1 (info.iterations is the 0-based loop index); fewer than '
        'max_iter circles => not failed. "Converged on the very last allowed iteration" (max_iter '
        'circles, failed False) is legal and counted',
        'the never-degenerate-or-failed clause is asserted for the all-default configuration only '
        '(with step_ratio 1.2 the 30 iterations cannot reach a useful radius from 0.0059); sums and '
        'polynomials in disguise (recognised from the exact coefficients) are counted, not asserted')
    constants = {'K_EST': K_EST, 'KAPPA': KAPPA, 'SAFETY_MAXF': SAFETY_MAXF, 'REL_DERIV': REL_DERIV,
                 'EST_ZERO': EST_ZERO}
    examples = {'quick': 300, 'thorough': 4000}

    def strategy(self, tier):
        return c17_case()

    # ---------------------------------------------------------------------------------
    def check(self, case, ctx):
        import numdifftools.fornberg as ndf
        spec, n = case['spec'], int(case['n'])
        z0c = complex(*case['z0'])
        z0 = z0c if case['z0'][1] != 0 else float(case['z0'][0])
        kw = _kwargs(case)
        max_iter = kw.get('max_iter', DEFAULT_MAXITER)
        d = tf.distance(spec, z0c)
        poly = tf.is_polynomial(spec)
        desc = 'taylor(%s, z0=%r, n=%d%s)' % (tf.show(spec), z0, n,
                                              ''.join(', %s=%r' % kv for kv in sorted(kw.items())))
        calls = []
        f = tf.np_callable(spec, calls)
        with ctx.lib('no-exception', desc):
            coefs, info = ndf.taylor(f, z0, n=n, full_output=True, **kw)
        coefs = np.asarray(coefs)
        est = np.asarray(info.error_estimate, dtype=float)
        m = coefs.shape[0] if coefs.ndim == 1 else -1
        radii = [abs(p - z0c) for (size, p) in calls if size > 0]
        ncircles = len(radii)
        ctx.count('mode=%s' % case['mode'])
        ctx.count('shape=%s' % spec[0])
        ctx.count('z0=%s' % ('real' if case['z0'][1] == 0 else 'complex'))
        ctx.count('n<=20' if n <= 20 else 'n>20')
        ctx.count('r=%s' % ('default' if case.get('r') is None else 'drawn'))
        ctx.count('max_iter=%s' % max_iter)

        # --- at least n+1 coefficients, estimates of the same length ------------------
        if coefs.ndim != 1 or m < n + 1:
            raise Violation('length', '%s returned %s coefficients, need >= %d' % (desc, coefs.shape, n + 1),
                            m=m)
        if est.shape != coefs.shape:
            raise Violation('length', '%s: error_estimate has shape %s, coefficients %s'
                            % (desc, est.shape, coefs.shape))

        failed, degenerate = bool(info.failed), bool(info.degenerate)
        R = float(info.final_radius)
        # --- failed <=> the iteration cap was reached ---------------------------------
        # observed: ncircles = number of circles f was evaluated on (<= max_iter by the loop).
        # failed  => ncircles == max_iter;  ncircles < max_iter => not failed.
        # (ncircles == max_iter and not failed is the legal "converged on the last allowed
        #  iteration" and is only counted.)
        if ncircles > max_iter:
            raise Violation('failed-iff-cap', '%s evaluated %d circles with max_iter=%d'
                            % (desc, ncircles, max_iter), ncircles=ncircles)
        if failed and ncircles < max_iter:
            raise Violation('failed-iff-cap', '%s: failed=True after %d of max_iter=%d iterations '
                            '(info.iterations=%r)' % (desc, ncircles, max_iter, info.iterations),
                            ncircles=ncircles, iterations=int(info.iterations))
        if failed and int(info.iterations) < max_iter - 1:
            raise Violation('failed-iff-cap', '%s: failed=True with info.iterations=%r < max_iter-1=%d'
                            % (desc, info.iterations, max_iter - 1), iterations=int(info.iterations))
        if not failed and ncircles == max_iter:
            ctx.count('converged-on-last-iteration')
        ctx.count('iterations==circles-1' if int(info.iterations) == ncircles - 1 else 'iterations!=circles-1')
        ctx.count('status=%s' % ('failed' if failed else 'degenerate' if degenerate else 'clean'))

        # --- the radius search restarts on every call of a Taylor object ------------------
        # (state named by the property: _degenerate, _failed, direction changes ... "reset by _initialize on
        #  each call"): an object that was first used at another point, far away and back at z0 + 1, then
        #  gives at z0 exactly what taylor() gives.  The warm-up results are not looked at.
        f3 = tf.np_callable(spec)
        with warnings.catch_warnings():
            warnings.simplefilter('ignore')
            with ctx.lib('no-exception', desc.replace('taylor(', 'Taylor object reused: ', 1)):
                tobj = ndf.Taylor(f3, n=n, full_output=True, **kw)
                for zw in (z0c - 1e5, z0c + 1.0):
                    try:
                        with np.errstate(all='ignore'):
                            tobj(zw)
                    except Exception:       # noqa: the warm-up point may lie on a singularity of f
                        pass
                with np.errstate(all='ignore'):
                    c3, i3 = tobj(z0)
        c3 = np.asarray(c3)
        same3 = (c3.shape == coefs.shape and np.array_equal(c3, coefs, equal_nan=True)
                 and np.array_equal(np.asarray(i3.error_estimate), np.asarray(info.error_estimate), equal_nan=True)
                 and bool(i3.failed) == failed and bool(i3.degenerate) == degenerate
                 and float(i3.final_radius) == R and int(i3.iterations) == int(info.iterations))
        ctx.count('reuse clause asserted')
        if not same3:
            raise Violation('reuse', '%s: a Taylor object used at other points before gives status %r, '
                            'taylor() %r (coefficients equal: %s)'
                            % (desc, tuple(i3[1:]), tuple(info[1:]),
                               c3.shape == coefs.shape and np.array_equal(c3, coefs, equal_nan=True)),
                            field='status')

        # --- derivative() == taylor() * k!, estimates scaled the same, same status ----
        calls2 = []
        f2 = tf.np_callable(spec, calls2)
        with ctx.lib('no-exception', desc.replace('taylor(', 'derivative(', 1)):
            ders, dinfo = ndf.derivative(f2, z0, n=n, full_output=True, **kw)
        ders = np.asarray(ders)
        dest = np.asarray(dinfo.error_estimate, dtype=float)
        if ders.shape != coefs.shape or dest.shape != est.shape:
            raise Violation('derivative', '%s: derivative() returns shapes %s/%s, taylor() %s/%s'
                            % (desc, ders.shape, dest.shape, coefs.shape, est.shape))
        fact = np.array([float(mp.factorial(k)) for k in range(m)])
        with np.errstate(all='ignore'):
            for name, a, b in (('value', ders, coefs * fact), ('error_estimate', dest, est * fact)):
                both_bad = ~np.isfinite(a) & ~np.isfinite(b)
                diff = np.where(both_bad, 0.0, np.abs(a - b))
                scale = np.where(both_bad, 1.0, np.abs(b))
                bad = ~(diff <= REL_DERIV * scale)
                ok_rel = np.where(scale > 0, diff / np.where(scale > 0, scale, 1.0), np.where(diff > 0, np.inf, 0.0))
                ctx.track('derivative_%s_rel/eps' % name, float(np.max(ok_rel)) / EPS)
                if np.any(bad):
                    k = int(np.flatnonzero(bad)[0])
                    raise Violation('derivative', '%s: derivative() %s[%d] = %r but taylor()*%d! = %r'
                                    % (desc, name, k, a[k], k, b[k]), k=k, field=name)
        same = (bool(dinfo.degenerate) == degenerate and bool(dinfo.failed) == failed
                and float(dinfo.final_radius) == R and int(dinfo.iterations) == int(info.iterations)
                and int(dinfo.function_count) == int(info.function_count))
        if not same:
            raise Violation('derivative', '%s: status of derivative() %r differs from taylor() %r'
                            % (desc, tuple(dinfo[1:]), tuple(info[1:])), field='status')

        # --- every default, n <= 20, d >= 1.5, non-polynomial => neither flag ----------
        # (asserted for the all-default configuration only: with a drawn step_ratio such as 1.2 the
        #  30 iterations cannot even reach a useful radius from r = 0.0059, so "failed" is then the
        #  documented outcome; those calls are counted with their status.  Sums are not in the
        #  property's family and a program that is a polynomial in disguise, e.g. sin(z) + sin(-z),
        #  is recognised by the oracle from its exact coefficients; both are only counted.)
        all_default = not kw
        status = 'failed' if failed else 'degenerate' if degenerate else 'clean'
        if n <= 20 and d >= 1.5 and not poly and case.get('r') is None and case.get('max_iter') is None:
            if not all_default:
                ctx.count('default r, n<=20, d>=1.5, drawn step_ratio/num_extrap: %s' % status)
            elif _has_sum(spec):
                ctx.count('every default, sum (not in the family): %s' % status)
            elif _numerically_polynomial(spec, case['z0']):
                ctx.count('every default, polynomial in disguise: %s' % status)
            else:
                ctx.count('nominal clause (every default): %s' % status)
                if failed or degenerate:
                    changes = _direction_changes(radii)
                    beyond = max(radii) >= d * (1 - 1e-9)
                    if beyond and 'beyond' in SKIP:
                        ctx.skip('dev flag: %s after a circle beyond the singularity (known class)' % status)
                    if 'nominal' not in SKIP:
                        raise Violation('never-failed' if failed else 'never-degenerate',
                                        '%s: failed=%s degenerate=%s after %d circles, final radius %.4g, '
                                        'largest circle %.4g, %d direction change(s) of the radius search '
                                        '(nearest singularity at distance %s)'
                                        % (desc, failed, degenerate, ncircles, R, max(radii), changes,
                                           'inf' if math.isinf(d) else '%.4g' % d),
                                        failed=failed, degenerate=degenerate, all_default=True,
                                        entire=math.isinf(d), direction_changes=changes,
                                        beyond_singularity=beyond, final_beyond=bool(R >= d * (1 - 1e-9)))
                    ctx.count('EXPLORE: nominal %s, %d direction change(s), beyond=%s'
                              % (status, changes, beyond))
        if failed or degenerate:
            return

        # --- accuracy of every coefficient k <= n --------------------------------------
        exact = tf.exact_coefs(spec, case['z0'], n + 1)
        theta = np.linspace(0.0, 2.0 * np.pi, 256, endpoint=False)
        with np.errstate(all='ignore'):
            samples = np.abs(tf.np_callable(spec)(z0c + R * np.exp(1j * theta)))
        maxf = float(np.max(samples)) if np.all(np.isfinite(samples)) else math.inf
        maxf *= SAFETY_MAXF
        beyond = max(max(radii), R) >= d * (1 - 1e-9)
        if beyond:
            ctx.count('some circle beyond the nearest singularity')
        if R >= d * (1 - 1e-9):
            ctx.count('final circle beyond the nearest singularity')
        if not (math.isfinite(maxf) and R > 0):
            ctx.count('max|f| on the final circle overflows (floor infinite)')
            return
        worst = (-1.0, None)

        def table(exact):
            rows, bad, resolvable = [], [], 0
            for k in range(n + 1):
                ck = complex(exact[k])
                err = float(abs(mp.mpc(complex(coefs[k])) - exact[k])) if np.isfinite(coefs[k]) else math.inf
                floor = EPS * maxf / R ** k
                e = float(est[k])
                tol = K_EST * e + KAPPA * floor
                ratio = err / tol if tol > 0 else (0.0 if err == 0 else math.inf)
                if abs(ck) * R ** k >= 1e-6 * maxf / SAFETY_MAXF:
                    resolvable += 1
                rows.append((k, ck, err, floor, e, ratio))
                if not (ratio <= 1.0):
                    bad.append(k)
            return rows, bad, resolvable

        rows, bad, resolvable = table(exact)
        if bad:
            # before reporting: the oracle again with 600 digits (Cauchy products cancel)
            exact = tf.exact_coefs(spec, case['z0'], n + 1, dps=600)
            rows, bad2, resolvable = table(exact)
            ctx.count('oracle re-run at 600 digits: %s' % ('confirmed' if bad2 == bad else 'changed the verdict'))
            bad = bad2
        isolated = len(bad) <= max(1, (n + 1) // 8)    # F7 hits a few FFT indices; a scaling bug hits them all
        for i, (k, ck, err, floor, e, ratio) in enumerate(rows):
            if i in bad:
                est_zero = bool(e <= EST_ZERO * floor)
                garbage = bool(err >= 0.5 * abs(ck))
                if beyond and 'beyond' in SKIP:
                    # stands in for a known-finding entry {"clause": "coef-accuracy",
                    # "beyond_singularity": true}: the case is set aside like the engine does
                    ctx.skip('dev flag: beyond-singularity inaccuracy (known class)')
                if 'f7' in SKIP and garbage and isolated and not beyond:
                    ctx.count('EXPLORE: F7 garbage k/m=%s estimate_zero=%s' % (_k_over_m(k, m), est_zero))
                    continue
                raise Violation(
                    'coef-accuracy',
                    '%s: coef[%d] = %r, exact %r, |err| = %.3g > %g*estimate(%.3g) + %g*eps*max|f|/R^k(%.3g); '
                    'm = %d, final radius %.4g, nearest singularity at %s, largest circle %.4g, '
                    '%d of %d coefficients out of tolerance'
                    % (desc, k, complex(coefs[k]), ck, err, K_EST, e, KAPPA, floor, m, R,
                       'inf' if math.isinf(d) else '%.4g' % d, max(radii), len(bad), n + 1),
                    k=k, m=m, err=err, estimate=e, floor=floor, estimate_zero=est_zero,
                    k_over_m=_k_over_m(k, m), beyond_singularity=beyond, garbage=garbage,
                    coef_is_zero=bool(coefs[k] == 0), isolated=isolated, n_bad=len(bad),
                    final_beyond=bool(R >= d * (1 - 1e-9)))
            summ = dict(call=desc, k=k, err=err, estimate=e, floor=floor)
            if beyond:      # near-misses of the beyond-singularity class are tracked apart
                ctx.track('err/(K*est + kappa*floor) [some circle beyond the singularity]', ratio, summ)
                continue
            if e > 0 and K_EST * e >= KAPPA * floor:
                ctx.track('err/estimate (K*est >= kappa*floor)', err / e, summ)
            elif floor > 0:
                ctx.track('err/floor (K*est < kappa*floor)', err / floor, summ)
            if ratio > worst[0]:
                worst = (ratio, summ)
        if worst[1] is not None:
            ctx.track('err/(K*est + kappa*floor)', worst[0], worst[1])
            ctx.record('worst err/(K*est + kappa*floor) per call', worst[0])
        if 2 * resolvable >= n + 1:
            ctx.nontriv(dict(spec=spec, z0=case['z0'], n=n, kw=kw))
            ctx.count('non-trivial')
        ctx.sample(dict(call=desc, final_radius=R, circles=ncircles, m=m,
                        coef_n=complex(coefs[n]), exact_n=complex(exact[n]),
                        estimate_n=float(est[n])))

    def finding_key(self, case, violation):
        key = {'clause': violation.clause}
        if case is not None:
            key['mode'] = case.get('mode')
            key['shape'] = case['spec'][0]
            key['n'] = case.get('n')
            key['default_r'] = case.get('r') is None
        for name in ('estimate_zero', 'k_over_m', 'beyond_singularity', 'garbage', 'all_default', 'failed',
                     'degenerate', 'entire', 'direction_changes', 'field', 'coef_is_zero', 'isolated',
                     'final_beyond'):
            if name in violation.details:
                key[name] = violation.details[name]
        return key


PROP = C17()
