"""Expression programs: one tree, several back ends (numpy / Jet / Ball).

Tree (JSON-serialisable nested lists):
    ['x'] | ['c', value] | ['u', name, sub] | ['powi', sub, int] | ['powr', sub, float]
    | [op, a, b]  with op in + - * /
Sub-trees without x are folded to a constant at generation time; a draw whose constant is not a
finite real is rejected inside the strategy.
"""
import math

import mpmath as mp
import numpy as np
from hypothesis import strategies as st

from nverif.oracle.balls import Ball, DomainError
from nverif.oracle.jets import Jet, JetDomainError

UNARY_C01 = ['exp', 'log', 'sqrt', 'sin', 'cos', 'tan', 'sinh', 'cosh', 'tanh', 'arctan',
             'arcsin', 'arcsinh', 'arctanh', 'expm1', 'log1p']
UNARY_C12_EXTRA = ['arccos', 'arccosh', 'cot', 'sec', 'csc', 'coth', 'sech', 'csch', 'log2',
                   'log10', 'exp2']
_MATH_NAME = {'arctan': 'atan', 'arcsin': 'asin', 'arcsinh': 'asinh', 'arctanh': 'atanh',
              'arccos': 'acos', 'arccosh': 'acosh'}
_RECIP = {'cot': 'tan', 'sec': 'cos', 'csc': 'sin', 'coth': 'tanh', 'sech': 'cosh', 'csch': 'sinh'}


# --------------------------------------------------------------------------------------
# structure
# --------------------------------------------------------------------------------------

def has_x(e):
    if e[0] == 'x':
        return True
    return any(has_x(s) for s in e[1:] if isinstance(s, (list, tuple)))


def size(e):
    return 1 + sum(size(s) for s in e[1:] if isinstance(s, (list, tuple)))


def ops(e, acc=None):
    """Set of operation names occurring in the tree."""
    acc = set() if acc is None else acc
    t = e[0]
    if t == 'u':
        acc.add(e[1])
    elif t in ('powi', 'powr'):
        acc.add(t)
    elif t not in ('x', 'c'):
        acc.add(t)
    for s in e[1:]:
        if isinstance(s, (list, tuple)):
            ops(s, acc)
    return acc


def show(e):
    t = e[0]
    if t == 'x':
        return 'x'
    if t == 'c':
        return repr(e[1])
    if t == 'u':
        return '%s(%s)' % (e[1], show(e[2]))
    if t in ('powi', 'powr'):
        return '(%s)**%r' % (show(e[1]), e[2])
    return '(%s %s %s)' % (show(e[1]), t, show(e[2]))


def _math_unary(name, v):
    if name in _RECIP:
        return 1.0 / getattr(math, _RECIP[name])(v)
    if name == 'exp2':
        return 2.0 ** v
    return getattr(math, _MATH_NAME.get(name, name))(v)


def _const_value(e):
    """Value of an x-free tree in real float arithmetic; raises on anything non-real/non-finite."""
    t = e[0]
    if t == 'c':
        return float(e[1])
    if t == 'u':
        return _math_unary(e[1], _const_value(e[2]))
    if t in ('powi', 'powr'):
        r = _const_value(e[1]) ** e[2]
        if isinstance(r, complex):
            raise ValueError('complex constant')
        return r
    a, b = _const_value(e[1]), _const_value(e[2])
    return {'+': a + b, '-': a - b, '*': a * b}[t] if t != '/' else a / b


def fold(e):
    """Fold x-free sub-trees into constants. Returns None if a constant is not a finite real."""
    if e[0] in ('x', 'c'):
        return list(e)
    if not has_x(e):
        try:
            v = _const_value(e)
        except (ValueError, ZeroDivisionError, OverflowError):
            return None
        if isinstance(v, complex) or not math.isfinite(v) or abs(v) > 1e6 or (v != 0 and abs(v) < 1e-6):
            return None
        return ['c', float('%.6g' % v)]
    out = [e[0]]
    for s in e[1:]:
        if isinstance(s, (list, tuple)):
            f = fold(s)
            if f is None:
                return None
            out.append(f)
        else:
            out.append(s)
    return out


# --------------------------------------------------------------------------------------
# Hypothesis strategy
# --------------------------------------------------------------------------------------

def _const():
    return st.builds(lambda s, m: ['c', float('%.3g' % (s * 10.0 ** m))],
                     st.sampled_from([-1.0, 1.0]), st.floats(-1.0, 0.7))


def expr_trees(unary=tuple(UNARY_C01), max_leaves=6, max_size=12, binary='+-*/',
               int_powers=(2, 3, -1, -2, 4, 5, 6, -3), real_powers=True):
    leaf = st.one_of(st.just(['x']), st.just(['x']), st.just(['x']), _const())

    def extend(children):
        alts = [st.builds(lambda n, c: ['u', n, c], st.sampled_from(list(unary)), children)] * 6
        alts.append(st.builds(lambda c, p: ['powi', c, p], children, st.sampled_from(list(int_powers))))
        if real_powers:
            alts.append(st.builds(lambda c, p: ['powr', c, round(p, 2)], children,
                                  st.floats(-2.5, 3.5).filter(lambda p: round(p, 2) != int(round(p, 2)))))
        alts += [st.builds(lambda o, a, b: [o, a, b], st.sampled_from(list(binary)), children, children)] * 4
        return st.one_of(*alts)

    raw = st.recursive(leaf, extend, max_leaves=max_leaves)
    return raw.map(fold).filter(lambda e: e is not None and has_x(e) and size(e) <= max_size)


# --------------------------------------------------------------------------------------
# evaluation
# --------------------------------------------------------------------------------------

def _np_unary(name, u):
    if name in _RECIP:
        f = getattr(np, _RECIP[name])
        return 1.0 / f(u)
    return getattr(np, name)(u)


def _obj_unary(name, u):
    return getattr(u, name)()


def ev(e, x, unary):
    t = e[0]
    if t == 'x':
        return x
    if t == 'c':
        return e[1]
    if t == 'u':
        return unary(e[1], ev(e[2], x, unary))
    if t in ('powi', 'powr'):
        return ev(e[1], x, unary) ** e[2]
    a = ev(e[1], x, unary)
    b = ev(e[2], x, unary)
    if t == '+':
        return a + b
    if t == '-':
        return a - b
    if t == '*':
        return a * b
    if t == '/':
        return a / b
    raise ValueError(t)


def ev_all(e, x, unary, out, hook=None):
    """Like ev but appends the value of every x-dependent node to ``out`` (post-order).
    ``hook(index, value) -> value`` may replace a node's value (used for sensitivity analysis)."""
    t = e[0]
    if t == 'c':
        return e[1]
    if t == 'x':
        v = x
    elif t == 'u':
        v = unary(e[1], ev_all(e[2], x, unary, out, hook))
    elif t in ('powi', 'powr'):
        v = ev_all(e[1], x, unary, out, hook) ** e[2]
    else:
        a = ev_all(e[1], x, unary, out, hook)
        b = ev_all(e[2], x, unary, out, hook)
        v = a + b if t == '+' else a - b if t == '-' else a * b if t == '*' else a / b
    if hook is not None:
        v = hook(len(out), v)
    out.append(v)
    return v


def max_abs_argument(e, x, names):
    """Largest |argument| passed to a unary function in ``names`` when the tree is evaluated at
    the real point x (float arithmetic); 0.0 if none.  Used to classify findings."""
    best = [0.0]

    def unary(name, u):
        if name in names:
            try:
                best[0] = max(best[0], float(np.max(np.abs(u))))
            except Exception:
                pass
        return _np_unary(name, u)
    try:
        with np.errstate(all='ignore'):
            ev(e, x, unary)
    except Exception:
        pass
    return best[0]


def min_abs_argument(e, x, names):
    """Smallest |argument| passed to a unary function in ``names`` at the real point x (inf if none)."""
    best = [math.inf]

    def unary(name, u):
        if name in names:
            try:
                best[0] = min(best[0], float(np.min(np.abs(u))))
            except Exception:
                pass
        return _np_unary(name, u)
    try:
        with np.errstate(all='ignore'):
            ev(e, x, unary)
    except Exception:
        pass
    return best[0]


def max_abs_pow_base(e, x):
    """Largest |base| of a real power / sqrt node at the real point x (0 if there is none)."""
    return _pow_base_extreme(e, x, max, 0.0)


def min_abs_pow_base(e, x):
    """Smallest |base| of a real power / sqrt node when the tree is evaluated at the real point x
    (inf if there is none).  Bicomplex.__pow__ treats |base| < 1e-15 as a zero divisor."""
    return _pow_base_extreme(e, x, min, math.inf)


def _pow_base_extreme(e, x, pick, start):
    best = [start]

    def walk(t):
        if t[0] in ('x', 'c'):
            return
        if t[0] == 'powr' or (t[0] == 'u' and t[1] == 'sqrt'):
            sub = t[1] if t[0] == 'powr' else t[2]
            try:
                with np.errstate(all='ignore'):
                    v = abs(complex(ev(sub, x, _np_unary)))
                if v == v:
                    best[0] = pick(best[0], v)
            except Exception:
                pass
        for sub in t[1:]:
            if isinstance(sub, (list, tuple)):
                walk(sub)
    walk(e)
    return best[0]


def np_function(e):
    """The Python callable a user would write for this program (numpy ufuncs and operators)."""
    def f(x, *args, **kwds):
        return ev(e, x, _np_unary)
    f.tree = e
    return f


def jet_eval(e, x0, K, slope=1):
    """Jets of all x-dependent nodes for x = x0 + slope*t (root last). Raises JetDomainError."""
    out = []
    try:
        ev_all(e, Jet.affine(x0, slope, K), _obj_unary, out)
    except (ZeroDivisionError, ValueError, OverflowError) as exc:
        raise JetDomainError(str(exc))
    return out


def ball_eval(e, centre, radius):
    """Balls of all x-dependent nodes on |z - centre| <= radius, or None if not certified."""
    out = []
    try:
        ev_all(e, Ball(centre, radius), _obj_unary, out)
    except (DomainError, ZeroDivisionError, ValueError, OverflowError):
        return None
    return out


def apply_wrap(wrap, v):
    """Complex-valued wrapper applied to a value of any back end (number, ndarray, Jet, Ball)."""
    if wrap is None:
        return v
    if wrap['kind'] == 'affine':
        a = complex(*wrap['a'])
        b = complex(*wrap['b'])
        return v * a + b
    if wrap['kind'] == 'expi':
        w = v * 1j
        return w.exp() if isinstance(w, (Jet, Ball)) else np.exp(w)
    raise ValueError(wrap)


def np_function_wrapped(e, wrap):
    def f(x, *args, **kwds):
        return apply_wrap(wrap, ev(e, x, _np_unary))
    f.tree = e
    return f


RHO_GRID = [2.0 ** (k / 2.0) for k in range(12, -51, -1)]


class Analysis(object):
    """Everything the value-accuracy checks need about (tree, x): exact Taylor coefficients of
    every sub-tree, certified analyticity radius, sup-bounds M_g(rho) on certified discs."""

    def __init__(self, tree, x, K=40, rho_grid=RHO_GRID, wrap=None):
        """wrap: None | {'kind': 'affine', 'a': [re, im], 'b': [re, im]}  -> a*g(x) + b
                      | {'kind': 'expi'}                                   -> exp(1j*g(x))
        (complex-valued f for the real-step methods); the wrapped value is the last node."""
        self.tree, self.x, self.K, self.wrap = tree, x, K, wrap
        self.profile = []                 # [(rho, [M_g(rho) for each node])] decreasing rho
        for rho in rho_grid:
            balls = ball_eval(tree, x, rho)
            if balls is not None and wrap is not None:
                try:
                    balls = balls + [apply_wrap(wrap, balls[-1])]
                except (DomainError, OverflowError):
                    balls = None
            if balls is not None:
                sups = [b.sup() for b in balls]
                if max(sups) < 1e200:
                    self.profile.append((rho, sups))
        self.rho_cert = self.profile[0][0] if self.profile else 0.0
        self._jets = None

    @property
    def jets(self):
        if self._jets is None:
            jets = jet_eval(self.tree, self.x, self.K)
            if self.wrap is not None:
                jets = jets + [apply_wrap(self.wrap, jets[-1])]
            self._jets = jets
        return self._jets

    def exact(self, n):
        return mp.factorial(n) * self.jets[-1].c[n]

    def sensitivity(self, n):
        """(sens_0, sens_n):  sum over the x-dependent nodes g of |d f^(k)(x) / d log g|, k = 0 and n:
        the first-order effect on the value / on the n-th derivative of a relative perturbation of each
        intermediate result - the conditioning of evaluating the program in floating point.
        Computed by perturbing one node at a time by (1 + 1e-20) in 45-digit jet arithmetic."""
        key = ('sens', n)
        cache = self.__dict__.setdefault('_sens', {})
        if key in cache:
            return cache[key]
        K = n + 1
        delta = mp.mpf(10) ** -20
        with mp.workdps(45):
            def run(hook):
                out = []
                ev_all(self.tree, Jet.affine(self.x, 1, max(K, 2)), _obj_unary, out, hook)
                root = out[-1]
                if self.wrap is not None:
                    root = apply_wrap(self.wrap, root)
                return root, len(out)
            try:
                base, nn = run(None)
                s0 = mp.mpf(0)
                sn = mp.mpf(0)
                for k in range(nn):
                    if k == 0 and self.tree[0] == 'x':
                        continue
                    pert, _ = run(lambda i, v, k=k: v * (1 + delta) if i == k else v)
                    s0 += abs(pert.c[0] - base.c[0]) / delta
                    sn += abs(pert.c[n] - base.c[n]) / delta
                res = (float(s0), float(sn * mp.factorial(n)))
            except (JetDomainError, ZeroDivisionError, ValueError, OverflowError):
                res = None
        cache[key] = res
        return res

    def _sup_at(self, rho_min):
        """Smallest certified (rho, sups) with rho >= rho_min, or None."""
        best = None
        for rho, sups in self.profile:
            if rho >= rho_min:
                best = (rho, sups)
            else:
                break
        return best

    @property
    def logc(self):
        """log|c_k| of every node as float arrays (-inf for exact zeros)."""
        if getattr(self, '_logc', None) is None:
            rows = []
            with mp.workdps(20):
                for j in self.jets:
                    rows.append([float(mp.log(abs(c))) if c != 0 else -math.inf for c in j.c])
            self._logc = np.array(rows)
        return self._logc

    def log_bound(self, n, radii, node=None, kmin=0):
        """log of  n! * (sum_{k<K} |c_k| r^(k-n) + Cauchy tail)  for each r in radii and each node
        (array nodes x radii; +inf where no certified disc of radius >= 2r exists).
        With kmin > 0 only the terms k >= kmin are summed (the part of the series a rule of
        order kmin - n does not reproduce); the Cauchy tail is always included.
        The tail uses |c_k| <= M(rho)/rho^k on the smallest certified rho >= 2r."""
        radii = np.asarray(radii, dtype=float)
        K = self.K
        logc = self.logc if node is None else self.logc[node:node + 1 if node != -1 else None]
        k = np.arange(K)
        logr = np.log(radii)
        # nodes x radii x K
        terms = logc[:, None, :] + (k[None, None, :] - n) * logr[None, :, None]
        if kmin > 0:                      # only the terms k >= kmin (truncation sums)
            terms = np.where(k[None, None, :] >= kmin, terms, -np.inf)
        mx = np.max(terms, axis=2)
        mx_safe = np.where(np.isfinite(mx), mx, 0.0)
        with np.errstate(divide='ignore', invalid='ignore'):
            log_s = mx_safe + np.log(np.sum(np.exp(terms - mx_safe[:, :, None]), axis=2))
        log_s = np.where(np.isfinite(mx), log_s, -np.inf)
        log_tail = np.full(log_s.shape, np.inf)
        for i, r in enumerate(radii):
            cert = self._sup_at(2.0 * r)
            if cert is not None:
                rho, sups = cert
                sups = np.array(sups if node is None else sups[node:node + 1 if node != -1 else None])
                with np.errstate(divide='ignore'):
                    log_tail[:, i] = np.log(2.0 * sups) + K * (math.log(r) - math.log(rho)) - n * math.log(r)
        out = np.logaddexp(log_s, log_tail)
        return out + math.lgamma(n + 1)

    def scale(self, n, r0, r1):
        """S_n = max over sub-trees g of min_{r0<=r<=r1} bound_g(n, r)   (DESIGN 3.1); float."""
        r1 = min(r1, self.rho_cert / 2.0)
        if not (r1 > 0):
            return None
        r0 = min(r0, r1)
        m = int(min(200, max(1, math.ceil(math.log2(r1 / r0) * 2)))) if r1 > r0 else 0
        radii = [r1 * (r0 / r1) ** (i / m) for i in range(m + 1)] if m else [r1]
        lb = self.log_bound(n, radii)
        val = float(np.max(np.min(lb, axis=1)))
        return math.exp(val) if val < 700 else math.inf
