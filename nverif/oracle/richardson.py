"""Exact Richardson weights and exactly evaluated model sequences (C07).

Independent of numdifftools.  The weights w_0..w_u (u = number of terms used) are defined by

    sum_i w_i = 1,     sum_i w_i * x_j**i = 0   with  x_j = ratio**(-(order + step*j)),  j < u,

i.e. they are the coefficients of the polynomial  P(x) = prod_j (x - x_j)/(1 - x_j).

* real ratio  : the (u+1)x(u+1) system is solved by exact Gaussian elimination in Fractions
                (Fraction(float) is exact) and cross-checked against the product form;
* complex ratio: product form in mpmath at ``DPS`` digits, residual of the system verified.
"""
from fractions import Fraction

import mpmath

from nverif.oracle.rational import poly_mul, solve

DPS = 60


def exponents(step, order, used):
    return [order + step * j for j in range(used)]


def weights_real(ratio, step, order, used):
    """Exact weights (list of Fraction) for a float ratio; also returns the nodes x_j."""
    r = Fraction(ratio)
    n = used + 1
    xs = [(1 / r) ** p for p in exponents(step, order, used)]
    A = [[Fraction(1)] * n] + [[x ** i for i in range(n)] for x in xs]
    w = solve(A, [1] + [0] * used)
    # second route: coefficients of prod (x - x_j)/(1 - x_j)
    poly = [Fraction(1)]
    for x in xs:
        poly = poly_mul(poly, [-x / (1 - x), 1 / (1 - x)])
    if list(poly) != list(w):
        raise AssertionError('oracle: elimination and product form disagree')
    return w, xs


def weights_complex(ratio, step, order, used):
    """Weights (list of mpc) for a complex ratio, by the product form at DPS digits."""
    with mpmath.workdps(2 * DPS):
        r = mpmath.mpc(ratio.real, ratio.imag)
        xs = [r ** (-p) for p in exponents(step, order, used)]
        poly = [mpmath.mpc(1)]
        for x in xs:
            d = 1 - x
            a, b = -x / d, 1 / d
            new = [mpmath.mpc(0)] * (len(poly) + 1)
            for i, c in enumerate(poly):
                new[i] += c * a
                new[i + 1] += c * b
            poly = new
        # verify the defining system at working precision
        tot = sum(abs(c) for c in poly)
        res = abs(sum(poly) - 1)
        for x in xs:
            res = max(res, abs(sum(c * x ** i for i, c in enumerate(poly))))
        if res > tot * mpmath.mpf(10) ** (-DPS):
            raise AssertionError('oracle: complex weights do not satisfy the system')
        return poly, xs


def residuals(w_float, xs, cplx):
    """Exact |sum w - 1| and |sum_i w_i x_j**i| for the *library's* float weights."""
    if not cplx:
        wf = [Fraction(float(v)) for v in w_float]
        out = [abs(sum(wf) - 1)]
        for x in xs:
            out.append(abs(sum(wi * x ** i for i, wi in enumerate(wf))))
        return [float(v) for v in out]
    with mpmath.workdps(2 * DPS):
        wf = [mpmath.mpc(complex(v).real, complex(v).imag) for v in w_float]
        out = [abs(sum(wf) - 1)]
        for x in xs:
            out.append(abs(sum(wi * x ** i for i, wi in enumerate(wf))))
        return [float(v) for v in out]


def model_sequence(L, coefs, ratio, h0, step, order, length):
    """L + sum_j coefs[j] * h_i**(order + step*j),  h_i = h0*ratio**(-i), i < length.

    Evaluated at DPS digits and rounded once.  Returns (values, |h_i| as floats)."""
    cplx = isinstance(ratio, complex) or isinstance(L, complex) or any(isinstance(c, complex) for c in coefs)
    with mpmath.workdps(DPS):
        def mp(v):
            return mpmath.mpc(v.real, v.imag) if isinstance(v, complex) else mpmath.mpf(v)
        r, Lm, cm = mp(ratio), mp(L), [mp(c) for c in coefs]
        h0m = mpmath.mpf(h0)
        vals, habs = [], []
        for i in range(length):
            h = h0m * r ** (-i)
            v = Lm
            for j, c in enumerate(cm):
                v = v + c * h ** (order + step * j)
            vals.append(complex(v) if cplx else float(v))
            habs.append(float(abs(h)))
    return vals, habs
