"""Multivariate programs  f: R^n -> R^m  (DESIGN 3.2): generator, Python callable, exact oracle.

Program (JSON-serialisable dict)
--------------------------------
    prog = {'n': n,
            'pool':  [{'g': tree, 'a': [a_1..a_n], 'b0': float}, ...],      # ridge factors
            'comps': [{'A': [A_1..A_n] | None, 'b': float, 'Q': n x n symmetric list | None,
                       'terms': [{'c': float, 'f': [r] | [r1, r2]}, ...]}, ...],   # m components
            'container': '0d' | 'len1' | 'vec' | 'mat',
            'B': [B_0..B_{k-1}], 'E': [E_0..E_{k-1}]}                        # 'mat' only

    component_i(x) = A_i . x + b_i + x'Q_i x / 2 + sum_terms c * prod_{r in f} g_r(a_r . x + b0_r)

with g_r a univariate expression tree of nverif.oracle.exprs.  Containers: '0d' returns the value
of component 0 (m = 1), 'len1' a length-1 array (m = 1), 'vec' the length-m array, 'mat' the
(m, k) array  out[i, l] = B[l] * component_i + E[l] * component_{(i + l) % m}.

The callable (:class:`MVFunction`) is written the way a user would write it: indexing x[i], +, *,
Python-float constants and numpy ufuncs only (no ``@``, ``np.sum``, ``np.dot``), so the same object
accepts float arrays, complex arrays, (n, 1) column vectors (every x[i] is then a length-1 array) and
``Bicomplex`` vectors.  ``MVFunction(prog, grid=(n1, n2))`` indexes a 2-d x as x[i // n2][i % n2].

Public API
----------
    mv_cases(n, m, kinds, containers, kmax, unary, products, max_pool, ...)  Hypothesis strategy
                                        -> {'prog': prog, 'x': [x_1..x_n], 'kind': kind}
    MVFunction(prog, grid=None, wrap=None, record=None)        the Python callable f(x, *args, **kwds)
    out_shape(prog) / out_elements(prog)                        logical output shape / linear combos
    MVAnalysis(prog, x, K=30, wrap=None)                        exact oracle at the point x:
        .reach_limit(dirs=None)      largest offset r (per coordinate, max-norm) such that every ridge
                                     argument stays inside rho_cert/2:  min_r rho_cert_r / (2 sum_d |a_rd|)
        .value(), .jacobian(), .hessian()                       float/complex ndarrays (container level)
        .comp_value(i), .comp_grad(i), .comp_hess(i)            60-digit mpmath values per component
        .majorant(elem, dirs, radii)                            M(r) >= sup |f_elem| on the polydisc
        .scale(order, elem, dirs, r0, r1)                       local scale S_order (see below)
        .max_majorant(reach)                                    overflow guard: sup of all values on the polydisc
        .trunc(elem, dirs, kmin, radii)                         terms of degree >= kmin of the majorant series
        .noise(elem), .cond(elem, dirs)                         argument-rounding terms for the floor
        .sup_box(elem, d)                                       polynomial part: sup |f| on the box |s_l| <= d_l
        .ops(), .negative_base()                                 classification of findings
    MVDomainError                                               x outside the certified domain
    step_specs(method) / make_step(nd, spec, method, scale, base)   JSON step specifications -> step argument
    generated_steps(obj, x) / fit_steps(build, x, limit, width, u)  steps of a configuration (the library's own
                                        generator) and their construction inside the certified reach
    kbucket(k_est)                                              k-bucket names of the C01 tolerance table
    documented_orders(cls, method, order), richardson_amplification(r, p, s, t),
    envelope_unit(an, elem, dirs, q, heads, w, dform, amp), extrapolated_unit(...)   Richardson-aware envelope unit

Oracle
------
t0_r = a_r . x + b0_r is formed exactly (60 digits) from the floats; the univariate jets of g_r at t0_r
give g, g', g'' and the chain / product rules give d/dx_j and d2/dx_j dx_k of every component.
Analyticity: exprs.Analysis(g_r, t0_r).rho_cert is the certified radius of g_r; a configuration whose
largest offset is  reach  (stencil width * h_max, max-norm) keeps every ridge argument inside
|t - t0_r| <= reach * ||a_r||_1, so it is admissible iff reach <= reach_limit().

Local scale (envelope unit, DESIGN 3.1 transported to several variables)
-----------------------------------------------------------------------
For an output element e, a set of perturbed coordinates D (= {j} for dJ/dx_j and d2/dx_j2, {j, k} for the
mixed partial) and a radius r, the majorant
    M_e(D, r) = sum_combos |coef| * [ c00 + r * sum_{d in D} lin_d + r^2 * quad_D            (polynomial part:
                                       absolute sums of the monomials of A.x + b + x'Qx/2 and of their
                                       first/second partials in the directions of D)
                                     + sum_terms |c| * prod_{r in f} Mhat_r( r * sum_{d in D} |a_rd| ) ]
bounds |f_e| and every intermediate value of the evaluation on the polydisc |s_d| <= r, d in D;
Mhat_r(R) = max over the sub-trees h of g_r of  sum_k |c_k(h)| R^k + Cauchy tail  (exprs.Analysis.log_bound).
By Cauchy's estimates
    S_1(e, j)    = min_{r0 <= r <= r1}      M_e({j}, r) / r
    S_2(e, j, j) = min_{r0 <= r <= r1}  2 * M_e({j}, r) / r^2
    S_2(e, j, k) = min_{r0 <= r <= r1}      M_e({j, k}, r) / r^2          (j != k)
are upper bounds of the exact partial derivatives and of the rounding noise eps*|values|/r^order of any
difference quotient with steps in [r0, r1].
The rounding of the ridge arguments themselves (a_r . x + b0_r is a floating-point sum of magnitude
argmag_r = sum_l |a_rl x_l| + |b0_r|) perturbs each sample of f by about eps * noise(e),
    noise(e) = sum_combos |coef| sum_terms |c| sum_{r in f} argmag_r |g_r'(t0_r)| prod_{r' != r} |g_r'(t0_r')|,
which the checks put into their floor as  eps * noise / h^order (h the step the library reports having
used, or h_min); the *true* derivative moves by about eps * cond(e, dirs),
    cond = sum over ridge factors of argmag_r |d/dt_r (exact partial derivative)|
(the only argument-rounding effect for the complex-step rules, which form no difference).
"""
import math

import mpmath as mp
import numpy as np
from hypothesis import strategies as st

from nverif.oracle import exprs
from nverif.oracle.jets import JetDomainError

K_DEFAULT = 30
EPS_ = 2.0 ** -52
R_CAP = 32.0               # largest radius ever used for entire programs (= max(RHO_GRID) / 2)


class MVDomainError(Exception):
    """x is outside the certified domain of a ridge factor (or the jet oracle is undefined)."""


# --------------------------------------------------------------------------------------
# structure helpers
# --------------------------------------------------------------------------------------

def out_shape(prog):
    """Logical output shape: () | (1,) | (m,) | (m, k)."""
    m = len(prog['comps'])
    c = prog['container']
    if c == '0d':
        return ()
    if c == 'len1':
        return (1,)
    if c == 'vec':
        return (m,)
    return (m, len(prog['B']))


def out_elements(prog):
    """List (C order over out_shape) of linear combinations [(coef, component index), ...]."""
    m = len(prog['comps'])
    c = prog['container']
    if c in ('0d', 'len1'):
        return [[(1.0, 0)]]
    if c == 'vec':
        return [[(1.0, i)] for i in range(m)]
    out = []
    for i in range(m):
        for l, (bl, el) in enumerate(zip(prog['B'], prog['E'])):
            combo = [(float(bl), i)]
            if el != 0:
                combo.append((float(el), (i + l) % m))
            out.append(combo)
    return out


def used_factors(prog):
    return sorted({r for comp in prog['comps'] for t in comp['terms'] for r in t['f']})


def is_affine(prog):
    return all(not comp['terms'] and comp['Q'] is None for comp in prog['comps'])


def is_polynomial(prog):
    return all(not comp['terms'] for comp in prog['comps'])


def describe(prog):
    """Short human-readable description (for evidence samples)."""
    parts = []
    for comp in prog['comps']:
        s = []
        if comp['A'] is not None:
            s.append('A.x')
        if comp['Q'] is not None:
            s.append("x'Qx/2")
        for t in comp['terms']:
            s.append('%g*%s' % (t['c'], '*'.join('g%d' % r for r in t['f'])))
        parts.append(' + '.join(s) + ' + %g' % comp['b'])
    pool = ['g%d=%s(a=%s,b0=%r)' % (r, exprs.show(f['g']), f['a'], f['b0'])
            for r, f in enumerate(prog['pool'])]
    return dict(n=prog['n'], container=prog['container'], comps=parts, pool=pool)


# --------------------------------------------------------------------------------------
# the Python callable
# --------------------------------------------------------------------------------------

class MVFunction(object):
    """f(x, *args, **kwds) for a program.

    grid=(n1, n2): x is an n1 x n2 array indexed x[i // n2][i % n2] (directionaldiff on 2-d x0).
    wrap={'a': [re, im], 'b': [re, im]}: complex-valued f = a * f + b (real-step methods).
    record: list receiving (copy of x as ndarray | None, args, kwds) on every call.
    """

    def __init__(self, prog, grid=None, wrap=None, record=None):
        self.prog, self.grid, self.record = prog, grid, record
        self.n = prog['n']
        self.wrap = None
        if wrap is not None:
            self.wrap = (complex(*wrap['a']), complex(*wrap['b']))
        self._g = [exprs.np_function(f['g']) for f in prog['pool']]
        self._used = used_factors(prog)
        self.calls = 0

    def _x(self, x, i):
        if self.grid is not None:
            n2 = self.grid[1]
            return x[i // n2][i % n2]
        return x[i]

    def __call__(self, x, *args, **kwds):
        self.calls += 1
        if self.record is not None:
            try:
                xc = np.array(x, copy=True)
                if xc.dtype == object:
                    xc = None
            except Exception:
                xc = None
            self.record.append((xc, args, dict(kwds)))
        prog = self.prog
        n = self.n
        xs = [self._x(x, i) for i in range(n)]
        u = {}
        for r in self._used:
            fac = prog['pool'][r]
            t = None
            for l in range(n):
                al = fac['a'][l]
                if al != 0:
                    term = al * xs[l]
                    t = term if t is None else t + term
            t = t + fac['b0']
            u[r] = self._g[r](t)
        vals = []
        for comp in prog['comps']:
            v = None
            if comp['A'] is not None:
                for l in range(n):
                    al = comp['A'][l]
                    if al != 0:
                        term = al * xs[l]
                        v = term if v is None else v + term
            if comp['Q'] is not None:
                Q = comp['Q']
                for j in range(n):
                    if Q[j][j] != 0:
                        term = (0.5 * Q[j][j]) * xs[j] * xs[j]
                        v = term if v is None else v + term
                    for k in range(j + 1, n):
                        if Q[j][k] != 0:
                            term = Q[j][k] * xs[j] * xs[k]
                            v = term if v is None else v + term
            for t in comp['terms']:
                term = t['c'] * u[t['f'][0]]
                for r in t['f'][1:]:
                    term = term * u[r]
                v = term if v is None else v + term
            v = v + comp['b']
            if self.wrap is not None:
                v = v * self.wrap[0] + self.wrap[1]
            vals.append(v)
        c = prog['container']
        if c == '0d':
            return vals[0]
        if c == 'len1':
            return np.array([vals[0]])
        if c == 'vec':
            return np.array(vals)
        m = len(vals)
        rows = []
        for i in range(m):
            row = []
            for l, (bl, el) in enumerate(zip(prog['B'], prog['E'])):
                e = bl * vals[i]
                if el != 0:
                    e = e + el * vals[(i + l) % m]
                row.append(e)
            rows.append(row)
        return np.array(rows)


# --------------------------------------------------------------------------------------
# Hypothesis strategy
# --------------------------------------------------------------------------------------

def _sig(v, digits=3):
    return float('%.*g' % (digits, v))


def _signed_pow10(u, lo, hi, digits):
    sign = -1.0 if u < 0 else 1.0
    return _sig(sign * 10.0 ** (lo + abs(u) * (hi - lo)), digits)


def coefs(lo=-1.0, hi=1.0, digits=3):
    """sign * 10^U(lo, hi), rounded to a few significant digits (one Hypothesis draw)."""
    return st.floats(-1.0, 1.0).map(lambda u: _signed_pow10(u, lo, hi, digits))


def points(n, lo=-3.0, hi=2.0):
    """x_l = sign * 10^U(-3, 2), as in C01."""
    one = st.floats(-1.0, 1.0).map(lambda u: (-1.0 if u < 0 else 1.0) * 10.0 ** (lo + abs(u) * (hi - lo)))
    return st.lists(one, min_size=n, max_size=n)


@st.composite
def _ridge_factor(draw, n, x, unary, max_leaves):
    g = draw(exprs.expr_trees(unary=tuple(unary), max_leaves=max_leaves, max_size=8)
             .filter(lambda e: exprs.size(e) >= 2))
    a = []
    for _ in range(n):
        if n > 1 and draw(st.integers(0, 3)) == 0:
            a.append(0.0)
        else:
            a.append(draw(coefs(-1.0, 0.3, 2)))
    if not any(a):
        a[draw(st.integers(0, n - 1))] = 1.0
    # construction instead of rejection: the argument t0 = a.x + b0 is placed on the first drawn
    # target inside the certified domain of g
    cands = [draw(coefs(-2.0, 1.3, 6)) for _ in range(6)]
    good = [t for t in cands if exprs.Analysis(g, t, K=4).rho_cert > 1e-4 * max(1.0, abs(t))]
    target = (good + cands)[0]
    ax = math.fsum(al * xl for al, xl in zip(a, x))
    b0 = float(target - ax)
    return {'g': g, 'a': a, 'b0': b0}


@st.composite
def mv_cases(draw, n=st.integers(1, 8), m=st.integers(1, 6), kinds=('affine', 'quadratic', 'ridge'),
             containers=('0d', 'len1', 'vec', 'mat'), kmax=4, unary=tuple(exprs.UNARY_C01),
             products=True, max_pool=3, max_leaves=3, max_terms=2, int_x=False):
    """Strategy for {'prog': prog, 'x': x, 'kind': kind, 'x_int': x_int}.

    kind 'affine': A x + b with dense asymmetric A;  'quadratic': A x + b + x'Qx/2 with pairwise
    different off-diagonal Q entries;  'ridge': 1..max_terms ridge terms (products of two factors with
    probability 1/4) plus an affine part (1/2) and a quadratic part (1/4).
    '0d' and 'len1' force m = 1.
    """
    nn = draw(n) if not isinstance(n, int) else n
    kind = draw(st.sampled_from(list(kinds)))
    container = draw(st.sampled_from(list(containers)))
    if container in ('0d', 'len1'):
        mm = 1
    else:
        mm = draw(m) if not isinstance(m, int) else m
    x = draw(points(nn))
    x_int = False
    if int_x and draw(st.integers(0, 5)) == 0:
        # integer-valued point (the documentation calls Hessian / Gradient with lists of Python ints)
        x_int = True
        x = [float(draw(st.integers(1, 100)) * draw(st.sampled_from([-1, 1]))) for _ in range(nn)]
    pool = []
    if kind == 'ridge':
        npool = draw(st.integers(1, max_pool))
        pool = [draw(_ridge_factor(nn, x, unary, max_leaves)) for _ in range(npool)]
    comps = []
    for _ in range(mm):
        A = Q = None
        terms = []
        if kind == 'affine' or kind == 'quadratic' or draw(st.booleans()):
            A = [draw(coefs(-1.0, 1.0)) for _ in range(nn)]
            if kind == 'ridge' and nn > 1:
                for l in range(nn):
                    if draw(st.integers(0, 2)) == 0:
                        A[l] = 0.0
                if not any(A):
                    A = None
        if kind == 'quadratic' or (kind == 'ridge' and draw(st.integers(0, 3)) == 0):
            Q = [[0.0] * nn for _ in range(nn)]
            for j in range(nn):
                for k in range(j, nn):
                    v = draw(coefs(-1.0, 1.0))
                    if kind == 'ridge' and draw(st.integers(0, 2)) == 0:
                        v = 0.0
                    Q[j][k] = Q[k][j] = v
        if kind == 'ridge':
            for _t in range(draw(st.integers(1, max_terms))):
                r1 = draw(st.integers(0, len(pool) - 1))
                f = [r1]
                if products and draw(st.integers(0, 3)) == 0:
                    f.append(draw(st.integers(0, len(pool) - 1)))
                terms.append({'c': draw(coefs(-1.0, 1.0)), 'f': f})
        b = draw(coefs(-1.0, 1.0)) if draw(st.booleans()) else 0.0
        comps.append({'A': A, 'b': b, 'Q': Q, 'terms': terms})
    prog = {'n': nn, 'pool': pool, 'comps': comps, 'container': container, 'B': [], 'E': []}
    if container == 'mat':
        k = draw(st.integers(1, kmax))
        prog['B'] = [draw(coefs(-0.5, 0.5)) for _ in range(k)]
        prog['E'] = [draw(coefs(-0.5, 0.5)) if (mm > 1 and draw(st.booleans())) else 0.0 for _ in range(k)]
    return {'prog': prog, 'x': x, 'kind': kind, 'x_int': x_int}


# --------------------------------------------------------------------------------------
# exact oracle
# --------------------------------------------------------------------------------------

def _radii(r0, r1, per_octave=2, nmax=48):
    if not (r1 > r0):
        return np.array([r1])
    cnt = int(min(nmax, max(1, math.ceil(math.log2(r1 / r0) * per_octave))))
    return np.array([r1 * (r0 / r1) ** (i / cnt) for i in range(cnt + 1)])


class MVAnalysis(object):
    """Exact values, Jacobian, Hessian and local scales of a program at the point x."""

    def __init__(self, prog, x, K=K_DEFAULT, wrap=None):
        self.prog, self.n, self.K = prog, prog['n'], K
        self.x = [float(v) for v in x]
        if len(self.x) != self.n:
            raise ValueError('x has %d entries, program has n=%d' % (len(self.x), self.n))
        self.mx = [mp.mpf(v) for v in self.x]
        self.wrap = None if wrap is None else (complex(*wrap['a']), complex(*wrap['b']))
        self.elements = out_elements(prog)
        self.shape = out_shape(prog)
        self.factors = {}
        for r in used_factors(prog):
            fac = prog['pool'][r]
            a = [float(v) for v in fac['a']]
            t0 = mp.fsum([mp.mpf(al) * xl for al, xl in zip(a, self.mx)] + [mp.mpf(fac['b0'])])
            an = exprs.Analysis(fac['g'], t0, K=K)
            if not (an.rho_cert > 0):
                raise MVDomainError('ridge factor %d not analytic at t0=%r' % (r, float(t0)))
            try:
                jets = an.jets
            except JetDomainError as exc:
                raise MVDomainError('jet oracle undefined for ridge factor %d: %s' % (r, exc))
            root = jets[-1]
            self.factors[r] = dict(a=a, absa=[abs(v) for v in a], a1=sum(abs(v) for v in a), t0=t0, an=an,
                                   g0=root.c[0], g1=root.c[1], g2=2 * root.c[2], g3=6 * root.c[3],
                                   argmag=math.fsum([abs(al * xl) for al, xl in zip(a, self.x)]
                                                    + [abs(fac['b0'])]),
                                   cache={})
        self._cg = {}
        self._ch = {}

    # ---- admissible reach ------------------------------------------------------------
    def reach_limit(self, dirs=None):
        """Largest max-norm offset r keeping every ridge argument within rho_cert/2 (inf if no ridge
        factor depends on the directions).  dirs=None: all coordinates may move (||a||_1)."""
        lim = math.inf
        for f in self.factors.values():
            rho = f['a1'] if dirs is None else sum(f['absa'][d] for d in set(dirs))
            if rho > 0:
                lim = min(lim, f['an'].rho_cert / (2.0 * rho))
        return lim

    def min_rho(self):
        return min([f['an'].rho_cert for f in self.factors.values()] or [math.inf])

    # ---- exact values per component ---------------------------------------------------
    def comp_value(self, i):
        comp, x = self.prog['comps'][i], self.mx
        n = self.n
        v = mp.mpf(comp['b'])
        if comp['A'] is not None:
            v += mp.fsum(mp.mpf(comp['A'][l]) * x[l] for l in range(n))
        if comp['Q'] is not None:
            Q = comp['Q']
            v += mp.fsum(mp.mpf(Q[j][k]) * x[j] * x[k] for j in range(n) for k in range(n)) / 2
        for t in comp['terms']:
            p = mp.mpf(t['c'])
            for r in t['f']:
                p *= self.factors[r]['g0']
            v += p
        return v

    def comp_grad(self, i):
        if i in self._cg:
            return self._cg[i]
        comp, x, n = self.prog['comps'][i], self.mx, self.n
        g = [mp.mpf(0)] * n
        for j in range(n):
            v = mp.mpf(0)
            if comp['A'] is not None:
                v += mp.mpf(comp['A'][j])
            if comp['Q'] is not None:
                v += mp.fsum(mp.mpf(comp['Q'][j][l]) * x[l] for l in range(n))
            for t in comp['terms']:
                c = mp.mpf(t['c'])
                if len(t['f']) == 1:
                    f = self.factors[t['f'][0]]
                    v += c * f['g1'] * mp.mpf(f['a'][j])
                else:
                    f1, f2 = self.factors[t['f'][0]], self.factors[t['f'][1]]
                    v += c * (f1['g1'] * mp.mpf(f1['a'][j]) * f2['g0'] + f1['g0'] * f2['g1'] * mp.mpf(f2['a'][j]))
            g[j] = v
        self._cg[i] = g
        return g

    def comp_hess(self, i):
        if i in self._ch:
            return self._ch[i]
        comp, n = self.prog['comps'][i], self.n
        H = [[mp.mpf(0)] * n for _ in range(n)]
        for j in range(n):
            for k in range(j, n):
                v = mp.mpf(0)
                if comp['Q'] is not None:
                    v += mp.mpf(comp['Q'][j][k])
                for t in comp['terms']:
                    c = mp.mpf(t['c'])
                    if len(t['f']) == 1:
                        f = self.factors[t['f'][0]]
                        v += c * f['g2'] * mp.mpf(f['a'][j]) * mp.mpf(f['a'][k])
                    else:
                        f1, f2 = self.factors[t['f'][0]], self.factors[t['f'][1]]
                        a1j, a1k = mp.mpf(f1['a'][j]), mp.mpf(f1['a'][k])
                        a2j, a2k = mp.mpf(f2['a'][j]), mp.mpf(f2['a'][k])
                        v += c * (f1['g2'] * a1j * a1k * f2['g0']
                                  + f1['g1'] * f2['g1'] * (a1j * a2k + a1k * a2j)
                                  + f1['g0'] * f2['g2'] * a2j * a2k)
                H[j][k] = H[k][j] = v
        self._ch[i] = H
        return H

    # ---- container level ----------------------------------------------------------------
    def _num(self, v, deriv):
        """mp value of the real program -> float, or complex under the wrapper a*f + b."""
        if self.wrap is None:
            return float(v)
        a, b = self.wrap
        z = complex(float(v) * a.real, float(v) * a.imag)
        return z if deriv else z + b

    def value(self):
        vals = [self._num(mp.fsum(mp.mpf(c) * self.comp_value(i) for c, i in combo), False)
                for combo in self.elements]
        return np.array(vals).reshape(self.shape)

    def jacobian(self):
        """Exact Jacobian: shape (1, n) for '0d'/'len1', (m, n) for 'vec', (m, n, k) for 'mat'."""
        n = self.n
        rows = [[self._num(mp.fsum(mp.mpf(c) * self.comp_grad(i)[j] for c, i in combo), True)
                 for j in range(n)] for combo in self.elements]
        J = np.array(rows)                       # (elements, n)
        if len(self.shape) < 2:
            return J
        m, k = self.shape
        return J.reshape(m, k, n).transpose(0, 2, 1)

    def hessian(self, elem=0):
        n = self.n
        combo = self.elements[elem]
        return np.array([[self._num(mp.fsum(mp.mpf(c) * self.comp_hess(i)[j][k] for c, i in combo), True)
                          for k in range(n)] for j in range(n)])

    # ---- majorants / scales ------------------------------------------------------------
    def _factor_majorant(self, r, rho, radii):
        """Mhat_r(rho * radii): max over sub-trees of the majorant series + Cauchy tail."""
        f = self.factors[r]
        key = (rho, tuple(radii))
        if key not in f['cache']:
            R = np.maximum(rho * np.asarray(radii, dtype=float), 1e-300)
            lb = f['an'].log_bound(0, R)               # nodes x radii
            top = np.max(lb, axis=0)
            f['cache'][key] = np.where(top > 709.0, np.inf, np.exp(np.minimum(top, 709.0)))
        return f['cache'][key]

    def _poly_coefs(self, i, D):
        """(c00, lin, quad): absolute sums of the polynomial part and of its partials in D."""
        comp, ax, n = self.prog['comps'][i], [abs(v) for v in self.x], self.n
        c00 = abs(comp['b'])
        lin = quad = 0.0
        A, Q = comp['A'], comp['Q']
        if A is not None:
            c00 += math.fsum(abs(A[l]) * ax[l] for l in range(n))
            lin += sum(abs(A[d]) for d in D)
        if Q is not None:
            c00 += math.fsum(abs(Q[j][k]) * ax[j] * ax[k] * (0.5 if j == k else 1.0)
                             for j in range(n) for k in range(j, n))
            lin += sum(math.fsum(abs(Q[d][l]) * ax[l] for l in range(n)) for d in D)
            D = sorted(D)
            quad += sum(abs(Q[d][d]) / 2.0 for d in D)
            if len(D) == 2:
                quad += abs(Q[D[0]][D[1]])
        return c00, lin, quad

    def comp_majorant(self, i, dirs, radii):
        D = sorted(set(dirs))
        radii = np.asarray(radii, dtype=float)
        c00, lin, quad = self._poly_coefs(i, D)
        M = c00 + lin * radii + quad * radii ** 2
        with np.errstate(over='ignore', invalid='ignore'):
            for t in self.prog['comps'][i]['terms']:
                p = abs(t['c']) * np.ones_like(radii)
                for r in t['f']:
                    rho = sum(self.factors[r]['absa'][d] for d in D)
                    p = p * self._factor_majorant(r, rho, radii)
                M = M + p
        return M

    def majorant(self, elem, dirs, radii):
        """M_e(D, r) for every r in radii (inf where no certified disc of radius 2*rho*r exists)."""
        radii = np.asarray(radii, dtype=float)
        M = np.zeros_like(radii)
        for c, i in self.elements[elem]:
            M = M + abs(c) * self.comp_majorant(i, dirs, radii)
        if self.wrap is not None:
            M = abs(self.wrap[0]) * M + abs(self.wrap[1])
        return M

    # ---- truncation sums (terms of the majorant series a rule of a given order does not reproduce) ----
    def _factor_series(self, r, rho, radii, kmin):
        """(explicit coefficient array m_a = |c_a(g_r)| rho^a (a < K), tail_{kmin}(radii), full majorant(radii),
        Cauchy tail beyond K (radii)) of the root of ridge factor r along a direction set with sum |a_d| = rho."""
        f = self.factors[r]
        an = f['an']
        R = np.maximum(rho * np.asarray(radii, dtype=float), 1e-300)
        with np.errstate(all='ignore'):
            coef = np.exp(an.logc[-1]) * rho ** np.arange(an.K) if rho > 0 else \
                np.concatenate([[math.exp(an.logc[-1][0])], np.zeros(an.K - 1)])
            tail_k = np.exp(np.minimum(an.log_bound(0, R, node=-1, kmin=kmin)[0], 709.0))
            full = np.exp(np.minimum(an.log_bound(0, R, node=-1)[0], 709.0))
            cauchy = np.exp(np.minimum(an.log_bound(0, R, node=-1, kmin=an.K)[0], 709.0))
        return coef, tail_k, full, cauchy

    def trunc(self, elem, dirs, kmin, radii):
        """Tail_kmin(r) = sum of the terms of total degree >= kmin of the majorant series of f_elem in the
        perturbed coordinates D (plus Cauchy tails): an upper bound of sum_{k >= kmin} |c_k| r^k for the Taylor
        coefficients c_k of s -> f_elem(x + s u), |u_d| <= 1 on D.  Polynomial part: its monomials of degree
        >= kmin; ridge term c*g(a.x+b0): |c| sum_{k >= kmin} |c_k(g)| (rho r)^k; product c*g1*g2: Cauchy product
        of the two coefficient sequences restricted to a + b >= kmin, plus cross terms with the Cauchy tails."""
        D = sorted(set(dirs))
        radii = np.asarray(radii, dtype=float)
        tot = np.zeros_like(radii)
        with np.errstate(all='ignore'):
            for coef_e, i in self.elements[elem]:
                c00, lin, quad = self._poly_coefs(i, D)
                part = np.zeros_like(radii)
                if kmin <= 0:
                    part = part + c00
                if kmin <= 1:
                    part = part + lin * radii
                if kmin <= 2:
                    part = part + quad * radii ** 2
                for t in self.prog['comps'][i]['terms']:
                    rhos = [sum(self.factors[r]['absa'][d] for d in D) for r in t['f']]
                    if len(t['f']) == 1:
                        _c, tail_k, _f, _cy = self._factor_series(t['f'][0], rhos[0], radii, kmin)
                        part = part + abs(t['c']) * tail_k
                    else:
                        c1, _t1, f1, y1 = self._factor_series(t['f'][0], rhos[0], radii, kmin)
                        c2, _t2, f2, y2 = self._factor_series(t['f'][1], rhos[1], radii, kmin)
                        conv = np.convolve(c1, c2)                      # degrees 0 .. 2K-2
                        deg = np.arange(conv.size)
                        conv = np.where(deg >= kmin, conv, 0.0)
                        expl = np.array([float(np.sum(conv * rr ** deg)) for rr in radii])
                        part = part + abs(t['c']) * (expl + y1 * f2 + f1 * y2)
                tot = tot + abs(coef_e) * part
        if self.wrap is not None:
            tot = abs(self.wrap[0]) * tot
        return tot

    def max_majorant(self, reach):
        """max over the output elements of M_e(all coordinates, reach): an upper bound of every value and
        intermediate value of f on the polydisc of radius reach (inf if not certified that far).  The checks
        skip cases where it exceeds 1e150 (products of factors would overflow double precision)."""
        D = tuple(range(self.n))
        r = min(float(reach), self.reach_limit(), R_CAP)
        best = 0.0
        for e in range(len(self.elements)):
            v = float(self.majorant(e, D, [r])[0])
            if not math.isfinite(v):
                return math.inf
            best = max(best, v)
        return best

    def scale(self, order, elem, dirs, r0, r1):
        """S_order of output element elem for the partial derivative in the directions dirs (a tuple of
        `order` coordinates) with difference radii in [r0, r1].  r1 is clipped to the certified reach.
        Returns None if nothing is certified."""
        D = sorted(set(dirs))
        r1 = min(r1, self.reach_limit(D), R_CAP)
        if not (r1 > 0):
            return None
        r0 = min(r0, r1)
        radii = _radii(r0, r1)
        M = self.majorant(elem, D, radii)
        fact = math.factorial(order) if len(D) == 1 else 1.0
        with np.errstate(over='ignore', invalid='ignore'):
            vals = fact * M / radii ** order
        vals = vals[np.isfinite(vals)]
        if vals.size == 0:
            return None
        return float(np.min(vals))

    def noise(self, elem):
        """sum |coef| |c| argmag_r |g_r'| prod |g_r'|: sensitivity of f_elem to the rounding of the ridge
        arguments (multiply by eps / h^order)."""
        tot = 0.0
        for coef, i in self.elements[elem]:
            for t in self.prog['comps'][i]['terms']:
                fs = [self.factors[r] for r in t['f']]
                for p, f in enumerate(fs):
                    v = abs(t['c']) * f['argmag'] * abs(float(f['g1']))
                    for q, f2 in enumerate(fs):
                        if q != p:
                            v *= abs(float(f2['g0']))
                    tot += abs(coef) * v
        if self.wrap is not None:
            tot *= abs(self.wrap[0])
        return tot

    def cond(self, elem, dirs):
        """sum_r argmag_r |d/dt_r of the exact partial derivative in the directions dirs| (abs-sums): the
        sensitivity of the *true* derivative to the rounding of the ridge arguments (multiply by eps).
        dirs has one entry (first derivative) or two (second derivative)."""
        order = len(dirs)
        tot = 0.0
        for coef, i in self.elements[elem]:
            for t in self.prog['comps'][i]['terms']:
                fs = [self.factors[r] for r in t['f']]
                der = [[abs(float(f[k])) for k in ('g0', 'g1', 'g2', 'g3')] for f in fs]
                aa = [[f['absa'][d] for d in dirs] for f in fs]
                c = abs(coef) * abs(t['c'])
                if len(fs) == 1:
                    tot += c * fs[0]['argmag'] * der[0][order + 1] * math.prod(aa[0])
                    continue
                (d1, d2), (a1, a2) = der, aa
                if order == 1:
                    s1 = d1[2] * a1[0] * d2[0] + d1[1] * d2[1] * a2[0]
                    s2 = d1[1] * a1[0] * d2[1] + d1[0] * d2[2] * a2[0]
                else:
                    mix = a1[0] * a2[1] + a1[1] * a2[0]
                    s1 = d1[3] * a1[0] * a1[1] * d2[0] + d1[2] * d2[1] * mix + d1[1] * d2[2] * a2[0] * a2[1]
                    s2 = d1[2] * a1[0] * a1[1] * d2[1] + d1[1] * d2[2] * mix + d1[0] * d2[3] * a2[0] * a2[1]
                tot += c * (fs[0]['argmag'] * s1 + fs[1]['argmag'] * s2)
        if self.wrap is not None:
            tot *= abs(self.wrap[0])
        return tot

    def sup_box(self, elem, d):
        """Polynomial programs: sum of |monomials| at |x_l| + d_l  >= sup |f_elem| on the box."""
        n = self.n
        ax = [abs(v) + float(dl) for v, dl in zip(self.x, d)]
        tot = 0.0
        for coef, i in self.elements[elem]:
            comp = self.prog['comps'][i]
            v = abs(comp['b'])
            if comp['A'] is not None:
                v += math.fsum(abs(comp['A'][l]) * ax[l] for l in range(n))
            if comp['Q'] is not None:
                v += math.fsum(abs(comp['Q'][j][k]) * ax[j] * ax[k] * (0.5 if j == k else 1.0)
                               for j in range(n) for k in range(j, n))
            tot += abs(coef) * v
        if self.wrap is not None:
            tot = abs(self.wrap[0]) * tot + abs(self.wrap[1])
        return tot

    def abs_affine(self, elem, j=None):
        """Affine programs: sum_l |A_l||x_l| + |b| (j None) or |A_j|, with |coef| weights."""
        tot = 0.0
        for coef, i in self.elements[elem]:
            comp = self.prog['comps'][i]
            A = comp['A'] or [0.0] * self.n
            if j is None:
                tot += abs(coef) * (math.fsum(abs(A[l] * self.x[l]) for l in range(self.n)) + abs(comp['b']))
            else:
                tot += abs(coef) * abs(A[j])
        return tot

    # ---- classification -------------------------------------------------------------------
    def ops(self):
        acc = set()
        for r in self.factors:
            acc |= exprs.ops(self.prog['pool'][r]['g'])
        if any(len(t['f']) > 1 for comp in self.prog['comps'] for t in comp['terms']):
            acc.add('*')
        return sorted(acc)

    def negative_base(self):
        """True if some division / power inside a ridge factor acts on a quantity whose real part is
        negative at the base point (Bicomplex division is exp(-log(.)), powers are exp(p log(.)))."""
        for r, f in self.factors.items():
            if _neg_base(self.prog['pool'][r]['g'], float(f['t0'])):
                return True
        return False


def _neg_base(e, t):
    def val(s):
        try:
            with np.errstate(all='ignore'):
                return float(np.real(exprs.ev(s, t, exprs._np_unary)))
        except Exception:
            return float('nan')
    k = e[0]
    if k in ('x', 'c'):
        return False
    if k == 'u':
        hidden = {'tan': np.cos, 'sec': np.cos, 'cot': np.sin, 'csc': np.sin, 'coth': np.sinh,
                  'csch': np.sinh}.get(e[1])          # Bicomplex evaluates these as quotients
        if hidden is not None:
            with np.errstate(all='ignore'):
                if float(np.real(hidden(val(e[2])))) < 0:
                    return True
        return _neg_base(e[2], t)
    if k in ('powi', 'powr'):
        return (exprs.has_x(e[1]) and val(e[1]) < 0) or _neg_base(e[1], t)
    hit = _neg_base(e[1], t) or _neg_base(e[2], t)
    if k == '/' and exprs.has_x(e[2]) and val(e[2]) < 0:
        hit = True
    return hit


# --------------------------------------------------------------------------------------
# step configuration helper (the library's own generator is configuration, not result)
# --------------------------------------------------------------------------------------

def generated_steps(d, x_arr):
    """Steps the numdifftools object d will use at x_arr: (list of |h| arrays shaped like x, step_ratio)."""
    gen = d.step.step_generator_function(x_arr, d.method, d.n, d.method_order)
    steps = [np.abs(np.asarray(s, dtype=float)) * np.ones(np.shape(x_arr)) for s in gen()]
    return steps, gen.step_ratio


def fit_steps(build, x_arr, limit, width, u=0.0, frac=None, cap=1.0):
    """Construct the object with build(scale, base) so that  width * h_max <= limit  (DESIGN 3.1): the
    configuration as drawn (build(1.0, None)) if it fits, otherwise the same generator class with every
    step multiplied by  limit/reach * 10^-u  (build(scale, base), base = the effective base_step the
    library resolved for the unscaled configuration, e.g. 2.0 or EPS**(1/scale)).
    frac (step specifications of kind 'geo'): the steps are always scaled so that
    width * h_max = frac * min(limit, cap).
    Returns (object, steps, step_ratio, scale, base) or a string naming the reason the case must be
    skipped."""
    d = build(1.0, None)
    base = None
    steps, ratio = generated_steps(d, x_arr)
    if not steps:
        return 'no steps generated'
    scale = 1.0
    reach = width * max(float(np.max(s)) for s in steps)
    if frac is not None or reach > limit:
        if frac is not None:
            scale = frac * min(limit, cap) / reach
        else:
            scale = limit / reach * 10.0 ** (-u)
        base = d.step.base_step
        d = build(scale, base)
        steps, ratio = generated_steps(d, x_arr)
        if not steps:
            return 'no steps generated'
        reach = width * max(float(np.max(s)) for s in steps)
        if reach > limit * (1 + 1e-6):
            return 'steps cannot be scaled into the certified disc'
    return d, steps, ratio, scale, base


# --------------------------------------------------------------------------------------
# step specifications (JSON) shared by the multivariate checks
# --------------------------------------------------------------------------------------

def kbucket(k_est):
    """Same buckets as the C01 tolerance table."""
    if k_est <= 1:
        return 'k1'
    if k_est <= 3:
        return 'k2-3'
    if k_est <= 7:
        return 'k4-7'
    return 'k8+'


@st.composite
def step_specs(draw, method, kinds=('default',) * 5 + ('min', 'max', 'scalar', 'options')):
    """Relative step specification, resolved against the certified radius by make_step(scale)."""
    cstep = method in ('complex', 'multicomplex')
    kind = draw(st.sampled_from(list(kinds)))
    spec = dict(kind=kind, u=round(draw(st.floats(0.0, 0.5)), 3))
    if kind in ('min', 'max'):
        spec['step_ratio'] = draw(st.sampled_from([None, None, 1.6, 2.0, 3.0, 4.0]))
        spec['offset'] = draw(st.sampled_from([0, 0, -1, 1]))
        spec['use_exact_steps'] = draw(st.booleans())
        if kind == 'max':
            spec['num_steps'] = draw(st.sampled_from([15, 15, None, 8, 20, 25]))
            spec['log10_base'] = round(draw(st.floats(-3.0, 0.5)), 3)
        else:
            spec['num_steps'] = draw(st.sampled_from([None, None, 3, 6, 10, 16]))
            spec['num_extrap'] = draw(st.integers(0, 9))
            spec['log10_base'] = round(draw(st.floats(-12.0, -2.0)) if cstep else draw(st.floats(-6.0, -1.0)), 3) \
                if draw(st.booleans()) else None
    elif kind == 'scalar':
        spec['log10_base'] = round(draw(st.floats(-12.0, -2.0)) if cstep else draw(st.floats(-5.0, -1.0)), 3)
    elif kind == 'options':
        spec['num_extrap'] = draw(st.integers(0, 9))
        spec['step_ratio'] = draw(st.sampled_from([None, 1.6, 2.0, 3.0, 4.0]))
    elif kind == 'geo':
        # short geometric user sequence: k derivative estimates (3..8), largest step a drawn fraction of the
        # certified reach (or of 1 for entire programs), so that the documented extrapolation order matters
        spec['k'] = draw(st.sampled_from([3, 3, 3, 3, 4, 4, 5, 6, 8]))
        spec['step_ratio'] = draw(st.sampled_from([1.6, 2.0, 2.0, 3.0, 4.0]))
        spec['log10_frac'] = round(draw(st.floats(-2.0, -0.3)), 3)
        spec['use_exact_steps'] = draw(st.booleans())
    return spec


GEO_KINDS = ('default',) * 4 + ('min', 'max', 'scalar', 'options') + ('geo',) * 4
GEO_KINDS_CSTEP = ('default',) * 3 + ('min', 'max', 'scalar', 'options') + ('geo',) * 5      # complex-step methods


def geo_frac(spec):
    """frac argument of fit_steps for a step specification (None unless kind == 'geo')."""
    return 10.0 ** spec['log10_frac'] if spec['kind'] == 'geo' else None


def geo_fixup(d, spec, ratio=None, hessian=False):
    """kind 'geo': give the generator of the constructed object as many steps as leave spec['k'] derivative
    estimates after the difference rule (rule length read from the object: configuration, not result)."""
    if spec['kind'] != 'geo':
        return d
    L = 1 if hessian else int(np.size(d.fd_rule.rule(spec['step_ratio'])))
    ntot = spec['k'] + L - 1
    d.step.num_steps = ntot
    # moderate dynamic range h_max / h_min <= 1e4: beyond it the small steps only add rounding noise
    for r in (spec['step_ratio'], 3.0, 2.0, 1.6, 1.3):
        if r <= spec['step_ratio'] and r ** (ntot - 1) <= 1e4:
            break
    d.step.step_ratio = r
    return d


def make_step(nd, spec, method, scale=1.0, base=None):
    """(step argument, extra keyword options) for Derivative/Jacobian/Hessian(...).  scale == 1.0 reproduces
    the drawn configuration literally; otherwise every generated step is multiplied by scale, using
    ``base`` (the library-resolved default base_step) where the specification leaves it to the default."""
    kind = spec['kind']
    cstep = method in ('complex', 'multicomplex')
    if kind == 'default':
        if scale == 1.0:
            return None, {}
        if cstep:
            return nd.MinStepGenerator(base_step=base * scale), {}
        return nd.MaxStepGenerator(base_step=base * scale), {}
    if kind == 'options':
        opts = {'num_extrap': spec['num_extrap']}
        if spec.get('step_ratio') is not None:
            opts['step_ratio'] = spec['step_ratio']
        if scale != 1.0:
            if cstep:
                return nd.MinStepGenerator(base_step=base * scale, **opts), {}
            opts['base_step'] = base * scale
        return None, opts
    if kind == 'scalar':
        return 10.0 ** spec['log10_base'] * scale, {}
    if kind == 'geo':
        return nd.MaxStepGenerator(base_step=(1.0 if base is None else base) * scale, step_ratio=spec['step_ratio'],
                                   num_steps=spec['k'], use_exact_steps=spec['use_exact_steps']), {}
    if kind == 'max':
        return nd.MaxStepGenerator(base_step=10.0 ** spec['log10_base'] * scale,
                                   step_ratio=spec['step_ratio'], num_steps=spec['num_steps'],
                                   offset=spec['offset'], use_exact_steps=spec['use_exact_steps']), {}
    if kind == 'min':
        if spec['log10_base'] is None:
            b = None if scale == 1.0 else base * scale
        else:
            b = 10.0 ** spec['log10_base'] * scale
        return nd.MinStepGenerator(base_step=b, step_ratio=spec['step_ratio'],
                                   num_steps=spec['num_steps'], offset=spec['offset'],
                                   num_extrap=spec['num_extrap'],
                                   use_exact_steps=spec['use_exact_steps']), {}
    raise ValueError(kind)


# --------------------------------------------------------------------------------------
# Richardson-aware envelope unit (documented orders restated here, never read from the library)
# --------------------------------------------------------------------------------------

def documented_orders(cls, method, order):
    """(spacing s, leading order p) of the truncation-error expansion  err(h) = a_p h^p + a_{p+s} h^{p+s} + ...
    of the estimates left after the difference rule, as documented / as follows from the Taylor series:
      one-sided rules (forward, backward): s = 1, p = order (Hessian: 1);
      central, central2: s = 2, p = order rounded down to even, >= 2 (Hessian: 2);
      multicomplex: s = 2, p = 2;
      complex: Jacobian/Gradient order < 4: s = 2, p = 2 (Im f(x + ih)/h); order >= 4: s = 4, p = 4;
               Hessdiag: s = 4, p = 4 (Im[f(x + sqrt(i) h) + f(x - sqrt(i) h)] has the powers h^2, h^6, ...);
               Hessian: s = 2, p = 2 (Ridout eq. 10: only even powers of h)."""
    hess = cls == 'Hessian'
    if method in ('forward', 'backward'):
        return 1, (1 if hess else max(int(order), 1))
    if method in ('central', 'central2'):
        return 2, (2 if hess else max(2 * (int(order) // 2), 2))
    if method == 'multicomplex':
        return 2, 2
    if method == 'complex':
        if hess:
            return 2, 2
        if cls == 'Hessdiag':
            return 4, max(4 * (int(order) // 4), 4)
        return (4, max(4 * (int(order) // 4), 4)) if order >= 4 else (2, 2)
    raise ValueError(method)


def richardson_amplification(r, p, s, t):
    """sum |w_i| of the weights w_0..w_t with sum w_i = 1 and sum w_i r^(-i (p + s j)) = 0 for j < t, i.e. of
    the combination of t+1 estimates at steps h, h/r, ..., h/r^t that removes h^p, ..., h^(p+s(t-1))."""
    if t <= 0 or not (r > 1):
        return 1.0
    A = np.ones((t + 1, t + 1))
    for j in range(t):
        A[j + 1, :] = [r ** (-i * (p + s * j)) for i in range(t + 1)]
    rhs = np.zeros(t + 1)
    rhs[0] = 1.0
    try:
        wts = np.linalg.solve(A, rhs)
    except np.linalg.LinAlgError:
        return 1.0
    return float(max(1.0, np.sum(np.abs(wts))))


def envelope_unit(an, elem, dirs, q, heads, w, dform, amp, tails=None):
    """U = amp * min over windows of [ T_q(w h_head) + R(h_tail) ]  for the partial derivative of f_elem in dirs
    (N = len(dirs) = 1 or 2; for a mixed partial h is the geometric mean of the two steps):
        T_q(r) = c_D * Tail_{N+q}(r) / r^N        truncation of a rule of order q (MVAnalysis.trunc), governed
                                                  by the largest step of the window
        R(h)   = eps (c_D M_e(D, w h) + (n+2) noise_e) / h^N     rules that difference function values: governed
                                                  by the smallest step of the window (tails; default = heads)
               = eps S_N(e, D; [w h, reach])                     cancellation-free rules
        c_D = N! for one coordinate, 1 for a mixed partial.
    Returns (U, T, R) at the minimising window, or None."""
    N = len(dirs)
    hs = np.asarray([float(h) for h in heads], dtype=float)
    ts = hs if tails is None else np.asarray([float(h) for h in tails], dtype=float)
    if hs.size == 0 or not np.all(hs > 0) or not np.all(ts > 0):
        return None
    lim = min(an.reach_limit(dirs), R_CAP)
    radii = np.minimum(w * hs, lim)
    cD = math.factorial(N) if len(set(dirs)) == 1 else 1.0
    with np.errstate(all='ignore'):
        T = cD * an.trunc(elem, dirs, N + q, radii) / radii ** N
        if dform:
            R = EPS_ * (cD * an.majorant(elem, dirs, radii) + (an.n + 2) * an.noise(elem)) / ts ** N
        else:
            R = np.array([EPS_ * (an.scale(N, elem, dirs, rr, math.inf) or math.inf) for rr in radii])
        tot = T + R
    ok = np.isfinite(tot)
    if not np.any(ok):
        return None
    j = int(np.argmin(np.where(ok, tot, np.inf)))
    return amp * float(tot[j]), amp * float(T[j]), amp * float(R[j])


def extrapolated_unit(an, cls, method, order, elem, dirs, hcols, k_est, ratio, w, dform, amp_rule, terms=2):
    """U_x if at least one Richardson term applies, else U_basic: U_basic = unit of the documented leading order p
    over the k_est largest steps;
    U_x = unit of order p + s*t over the k_est - t windows (head h_i, tail h_{i+t}) times sum |Richardson
    weights|, t = min(terms, k_est - 1).  hcols: list of step sequences (one per coordinate in dirs), each sorted
    descending.  Returns (U, which, t, T, R, T_p(w h_max)) with U = T + R (truncation and rounding parts at the minimising
    window, both including the weight sums) or None."""
    s_doc, p_doc = documented_orders(cls, method, order)
    cols = [np.sort(np.asarray(c, dtype=float))[::-1] for c in hcols]
    hs = cols[0] if len(cols) == 1 else np.sqrt(cols[0] * cols[1])
    k_est = int(max(1, min(k_est, hs.size)))
    ub = envelope_unit(an, elem, dirs, p_doc, hs[:k_est], w, dform, amp_rule)
    t = max(0, min(int(terms), k_est - 1))
    ux = None
    if t > 0:
        amp_r = richardson_amplification(float(abs(ratio)), p_doc, s_doc, t)
        m = max(k_est - t, 1)
        ux = envelope_unit(an, elem, dirs, p_doc + s_doc * t, hs[:m], w, dform, amp_rule * amp_r,
                           tails=hs[t:t + m] if hs.size >= t + m else None)
    # with t >= 1 every value the library can return is a Richardson combination of t+1 estimates: its error is
    # governed by U_x (which exceeds U_basic when the steps are not small against the radius of convergence, e.g.
    # high-degree polynomials sampled far out), so U_x is the unit; U_basic only when nothing is extrapolated
    # truncation of the un-extrapolated rule at the largest step (amp = 1): the checks assert the extrapolated order
    # only for asymptotic sequences, i.e. when this is already small against the local scale of the derivative
    tb = envelope_unit(an, elem, dirs, p_doc, hs[:1], w, dform, 1.0)
    t_max = tb[1] if tb is not None else math.inf
    if ux is not None:
        return ux[0], 'extrapolated', t, ux[1], ux[2], t_max
    if ub is None:
        return None
    return ub[0], 'basic', t, ub[1], ub[2], t_max
