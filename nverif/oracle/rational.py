"""Exact rational toolkit (fractions.Fraction).  Floats are rationals, so Fraction(float) is exact."""
from fractions import Fraction
from math import factorial


def F(x):
    return x if isinstance(x, Fraction) else Fraction(x)


def poly_mul(a, b):
    out = [Fraction(0)] * (len(a) + len(b) - 1)
    for i, ai in enumerate(a):
        if ai:
            for j, bj in enumerate(b):
                out[i + j] += ai * bj
    return out


def poly_eval(coefs, t):
    """Horner; coefs[k] multiplies t**k."""
    acc = Fraction(0)
    for c in reversed(coefs):
        acc = acc * t + c
    return acc


def poly_deriv(coefs, k=1):
    c = list(coefs)
    for _ in range(k):
        c = [i * ci for i, ci in enumerate(c)][1:]
        if not c:
            return [Fraction(0)]
    return c


def lagrange_derivative_weights(nodes, x0, nmax):
    """W[k][i] = d^k/dt^k l_i(t) at t = x0, l_i the Lagrange basis of ``nodes``.

    Computed by expanding l_i in powers of (t - x0) with polynomial multiplication
    (not Fornberg's recursion): W[k][i] = k! * [s^k] prod_{j != i} (s + x0 - x_j)/(x_i - x_j).
    """
    xs = [F(v) for v in nodes]
    x0 = F(x0)
    m = len(xs)
    W = [[Fraction(0)] * m for _ in range(nmax + 1)]
    for i in range(m):
        poly = [Fraction(1)]
        denom = Fraction(1)
        for j in range(m):
            if j == i:
                continue
            poly = poly_mul(poly, [x0 - xs[j], Fraction(1)])
            denom *= xs[i] - xs[j]
        for k in range(min(nmax, m - 1) + 1):
            W[k][i] = factorial(k) * poly[k] / denom
    return W


def solve(A, b):
    """Exact Gaussian elimination with partial (first non-zero) pivoting. A: list of rows."""
    n = len(A)
    M = [list(map(F, row)) + [F(bi)] for row, bi in zip(A, b)]
    for c in range(n):
        p = next((r for r in range(c, n) if M[r][c] != 0), None)
        if p is None:
            raise ZeroDivisionError('singular')
        M[c], M[p] = M[p], M[c]
        piv = M[c][c]
        M[c] = [v / piv for v in M[c]]
        for r in range(n):
            if r != c and M[r][c] != 0:
                f = M[r][c]
                M[r] = [vr - f * vc for vr, vc in zip(M[r], M[c])]
    return [M[i][n] for i in range(n)]


def shanks3(e0, e1, e2):
    """Three-term Shanks transform of exact rationals: e1 + 1/(1/d2 - 1/d1). None if undefined."""
    d1, d2 = e1 - e0, e2 - e1
    if d1 == 0 or d2 == 0 or d1 == d2:
        return None
    return e1 + 1 / (1 / d2 - 1 / d1)


def epsilon_table(seq):
    """Wynn's epsilon table in exact arithmetic.

    Returns cols where cols[k][n] = eps_k^{(n)} for k >= 0 (eps_{-1} = 0), or None in a slot
    whose defining difference vanished (and everything depending on it)."""
    s = [F(v) for v in seq]
    n = len(s)
    prev = [Fraction(0)] * (n + 1)     # eps_{-1}
    cur = list(s)                      # eps_0
    cols = [cur]
    for k in range(1, n):
        nxt = []
        for i in range(n - k):
            a, b, c = prev[i + 1], cur[i + 1], cur[i]
            if a is None or b is None or c is None or b == c:
                nxt.append(None)
            else:
                nxt.append(a + 1 / (b - c))
        cols.append(nxt)
        prev, cur = cur, nxt
    return cols
