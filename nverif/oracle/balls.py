"""Complex ball arithmetic: certify that an expression program is analytic on a disc and bound
sup|f| there.  Conservative: it may under-estimate the certified radius, never over-estimate.

Ten primitives (+, -, *, inverse, exp, log with a branch-cut test, sin, cos, sinh, cosh via
Lipschitz bounds); everything else is composed exactly as the principal-branch definitions.
"""
import cmath
import math


class DomainError(Exception):
    pass


INFL = 1 + 1e-9
BIG = 1e250


class Ball(object):
    __slots__ = ('c', 'r')

    def __init__(self, c, r=0.0):
        try:
            self.c = complex(c)
            self.r = float(r) * INFL
        except OverflowError:
            raise DomainError('overflow')
        if not (self.r < BIG and abs(self.c.real) < BIG and abs(self.c.imag) < BIG):
            raise DomainError('overflow')      # also catches nan

    def sup(self):
        return abs(self.c) + self.r

    @staticmethod
    def co(o):
        return o if isinstance(o, Ball) else Ball(o, 0.0)

    def __add__(self, o):
        o = Ball.co(o)
        return Ball(self.c + o.c, self.r + o.r)
    __radd__ = __add__

    def __neg__(self):
        return Ball(-self.c, self.r)

    def __sub__(self, o):
        o = Ball.co(o)
        return Ball(self.c - o.c, self.r + o.r)

    def __rsub__(self, o):
        return Ball.co(o) - self

    def __mul__(self, o):
        o = Ball.co(o)
        try:
            return Ball(self.c * o.c, abs(self.c) * o.r + abs(o.c) * self.r + self.r * o.r)
        except OverflowError:
            raise DomainError('overflow')
    __rmul__ = __mul__

    def inv(self):
        a = abs(self.c)
        if a <= self.r * 1.0001 or a == 0:
            raise DomainError('division by ball containing 0')
        try:
            return Ball(1 / self.c, self.r / (a * (a - self.r)))
        except (OverflowError, ZeroDivisionError):
            raise DomainError('overflow')

    def __truediv__(self, o):
        return self * Ball.co(o).inv()

    def __rtruediv__(self, o):
        return Ball.co(o) * self.inv()

    def exp(self):
        try:
            e = cmath.exp(self.c)
            return Ball(e, abs(e) * math.expm1(self.r))
        except OverflowError:
            raise DomainError('overflow')

    def log(self):
        a = abs(self.c)
        r = self.r * 1.0001
        if a <= r:
            raise DomainError('log of ball containing 0')
        if not (self.c.real > r or abs(self.c.imag) > r):
            raise DomainError('log ball touches branch cut')
        return Ball(cmath.log(self.c), -math.log1p(-self.r / a))

    def __pow__(self, a):
        if isinstance(a, Ball):
            return (self.log() * a).exp()
        if isinstance(a, int) or (isinstance(a, float) and a == int(a) and abs(a) < 64):
            a = int(a)
            if a < 0:
                return (self ** (-a)).inv()
            res = Ball(1.0)
            b = self
            while a:
                if a & 1:
                    res = res * b
                b = b * b
                a >>= 1
            return res
        return (self.log() * a).exp()

    def __rpow__(self, b):
        return (self * math.log(b)).exp()

    def sqrt(self):
        return self ** 0.5

    def _lip(self, f, bound):
        try:
            return Ball(f(self.c), self.r * bound)
        except OverflowError:
            raise DomainError('overflow')

    def _cosh_bound(self, t):
        t = abs(t) + self.r
        if t > 700:
            raise DomainError('overflow')
        return math.cosh(t)

    def sin(self):
        return self._lip(cmath.sin, self._cosh_bound(self.c.imag))

    def cos(self):
        return self._lip(cmath.cos, self._cosh_bound(self.c.imag))

    def sinh(self):
        return self._lip(cmath.sinh, self._cosh_bound(self.c.real))

    def cosh(self):
        return self._lip(cmath.cosh, self._cosh_bound(self.c.real))

    def tan(self):
        return self.sin() / self.cos()

    def cot(self):
        return self.cos() / self.sin()

    def sec(self):
        return self.cos().inv()

    def csc(self):
        return self.sin().inv()

    def tanh(self):
        return self.sinh() / self.cosh()

    def coth(self):
        return self.cosh() / self.sinh()

    def sech(self):
        return self.cosh().inv()

    def csch(self):
        return self.sinh().inv()

    def expm1(self):
        return self.exp() - 1

    def exp2(self):
        return (self * math.log(2.0)).exp()

    def log1p(self):
        return (1 + self).log()

    def log2(self):
        return self.log() * (1 / math.log(2.0))

    def log10(self):
        return self.log() * (1 / math.log(10.0))

    def arctan(self):
        iu = self * 1j
        return ((1 - iu).log() - (1 + iu).log()) * 0.5j

    def arcsin(self):
        return ((self * 1j + (1 - self * self).sqrt()).log()) * (-1j)

    def arccos(self):
        return math.pi / 2 - self.arcsin()

    def arcsinh(self):
        return (self + (self * self + 1).sqrt()).log()

    def arccosh(self):
        return (self + (self + 1).sqrt() * (self - 1).sqrt()).log()

    def arctanh(self):
        return ((1 + self).log() - (1 - self).log()) * 0.5
