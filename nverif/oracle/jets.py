"""Truncated Taylor-series (jet) arithmetic over mpmath: the oracle for f^(n)(x).

A Jet holds c_0 .. c_{K-1} with  f(x + t) = sum_k c_k t^k + O(t^K),  so f^(n)(x) = n! c_n.
Text-book recurrences only (Cauchy product, quotient, u y' = a u' y for powers, y' = u' y for
exp, coupled sin/cos and sinh/cosh, integration of u'/(1+u^2) etc. for the inverse functions).
Nothing here comes from numdifftools, numpy ufuncs or finite differences.  Works for real (mpf)
and complex (mpc) coefficients.
"""
import mpmath as mp

DPS = 60
mp.mp.dps = DPS


class JetDomainError(Exception):
    pass


def _m(v):
    if isinstance(v, (mp.mpf, mp.mpc)):
        return v
    if isinstance(v, complex):
        return mp.mpc(v.real, v.imag) if v.imag != 0 else mp.mpf(v.real)
    return mp.mpmathify(v)


class Jet(object):
    __slots__ = ('c',)

    def __init__(self, c):
        self.c = list(c)

    @property
    def K(self):
        return len(self.c)

    @staticmethod
    def var(x, K):
        return Jet([_m(x), mp.mpf(1)] + [mp.mpf(0)] * (K - 2))

    @staticmethod
    def affine(x0, slope, K):
        """Jet of t -> x0 + slope * t."""
        return Jet([_m(x0), _m(slope)] + [mp.mpf(0)] * (K - 2))

    @staticmethod
    def const(a, K):
        return Jet([_m(a)] + [mp.mpf(0)] * (K - 1))

    def _co(self, o):
        return o if isinstance(o, Jet) else Jet.const(o, self.K)

    def __add__(self, o):
        o = self._co(o)
        return Jet([a + b for a, b in zip(self.c, o.c)])
    __radd__ = __add__

    def __neg__(self):
        return Jet([-a for a in self.c])

    def __sub__(self, o):
        o = self._co(o)
        return Jet([a - b for a, b in zip(self.c, o.c)])

    def __rsub__(self, o):
        return self._co(o) - self

    def __mul__(self, o):
        if not isinstance(o, Jet):
            o = _m(o)
            return Jet([a * o for a in self.c])
        K = self.K
        a, b = self.c, o.c
        return Jet([mp.fsum(a[j] * b[k - j] for j in range(k + 1)) for k in range(K)])
    __rmul__ = __mul__

    def __truediv__(self, o):
        if not isinstance(o, Jet):
            o = _m(o)
            return Jet([a / o for a in self.c])
        if o.c[0] == 0:
            raise JetDomainError('division by a series with zero constant term')
        K = self.K
        q = []
        for k in range(K):
            s = self.c[k] - mp.fsum(q[j] * o.c[k - j] for j in range(k))
            q.append(s / o.c[0])
        return Jet(q)

    def __rtruediv__(self, o):
        return self._co(o) / self

    def deriv(self):
        return Jet([k * self.c[k] for k in range(1, self.K)] + [mp.mpf(0)])

    def integ(self, c0):
        return Jet([c0] + [self.c[k - 1] / k for k in range(1, self.K)])

    def exp(self):
        K = self.K
        u = self.c
        y = [mp.exp(u[0])]
        for k in range(1, K):
            y.append(mp.fsum(j * u[j] * y[k - j] for j in range(1, k + 1)) / k)
        return Jet(y)

    def expm1(self):
        y = self.exp()
        y.c[0] = mp.expm1(self.c[0])
        return y

    def exp2(self):
        return (self * mp.log(2)).exp()

    def _chk_log(self, u0):
        if u0 == 0 or (mp.im(u0) == 0 and mp.re(u0) < 0):
            raise JetDomainError('log/power of a non-positive real')

    def log(self):
        self._chk_log(self.c[0])
        return (self.deriv() / self).integ(mp.log(self.c[0]))

    def log1p(self):
        self._chk_log(1 + self.c[0])
        return (self.deriv() / (1 + self)).integ(mp.log1p(self.c[0]))

    def log2(self):
        return self.log() / mp.log(2)

    def log10(self):
        return self.log() / mp.log(10)

    def ipow(self, a):
        a = int(a)
        if a < 0:
            return 1 / self.ipow(-a)
        r = Jet.const(1, self.K)
        b = self
        while a:
            if a & 1:
                r = r * b
            b = b * b
            a >>= 1
        return r

    def rpow(self, a):
        """self ** a for a real exponent, u0 != 0:  u y' = a u' y."""
        K = self.K
        u = self.c
        self._chk_log(u[0])
        a = _m(a)
        y = [mp.power(u[0], a)]
        for k in range(1, K):
            s = mp.fsum((a * j - (k - j)) * u[j] * y[k - j] for j in range(1, k + 1))
            y.append(s / (k * u[0]))
        return Jet(y)

    def __pow__(self, a):
        if isinstance(a, Jet):
            return (self.log() * a).exp()
        if isinstance(a, int) or (isinstance(a, float) and a == int(a) and abs(a) < 64):
            return self.ipow(int(a))
        return self.rpow(a)

    def __rpow__(self, b):
        return (self * mp.log(_m(b))).exp()

    def sqrt(self):
        return self.rpow(mp.mpf('0.5'))

    def sincos(self):
        K = self.K
        u = self.c
        s = [mp.sin(u[0])]
        c = [mp.cos(u[0])]
        for k in range(1, K):
            s.append(mp.fsum(j * u[j] * c[k - j] for j in range(1, k + 1)) / k)
            c.append(-mp.fsum(j * u[j] * s[k - j] for j in range(1, k + 1)) / k)
        return Jet(s), Jet(c)

    def sin(self):
        return self.sincos()[0]

    def cos(self):
        return self.sincos()[1]

    def tan(self):
        s, c = self.sincos()
        return s / c

    def cot(self):
        s, c = self.sincos()
        return c / s

    def sec(self):
        return 1 / self.cos()

    def csc(self):
        return 1 / self.sin()

    def sinhcosh(self):
        K = self.K
        u = self.c
        s = [mp.sinh(u[0])]
        c = [mp.cosh(u[0])]
        for k in range(1, K):
            s.append(mp.fsum(j * u[j] * c[k - j] for j in range(1, k + 1)) / k)
            c.append(mp.fsum(j * u[j] * s[k - j] for j in range(1, k + 1)) / k)
        return Jet(s), Jet(c)

    def sinh(self):
        return self.sinhcosh()[0]

    def cosh(self):
        return self.sinhcosh()[1]

    def tanh(self):
        s, c = self.sinhcosh()
        return s / c

    def coth(self):
        s, c = self.sinhcosh()
        return c / s

    def sech(self):
        return 1 / self.cosh()

    def csch(self):
        return 1 / self.sinh()

    def arctan(self):
        return (self.deriv() / (1 + self * self)).integ(mp.atan(self.c[0]))

    def arcsin(self):
        return (self.deriv() / (1 - self * self).sqrt()).integ(mp.asin(self.c[0]))

    def arccos(self):
        return (-(self.deriv() / (1 - self * self).sqrt())).integ(mp.acos(self.c[0]))

    def arcsinh(self):
        return (self.deriv() / (1 + self * self).sqrt()).integ(mp.asinh(self.c[0]))

    def arccosh(self):
        return (self.deriv() / (self * self - 1).sqrt()).integ(mp.acosh(self.c[0]))

    def arctanh(self):
        return (self.deriv() / (1 - self * self)).integ(mp.atanh(self.c[0]))


def derivative_from_jet(jet, n):
    return mp.factorial(n) * jet.c[n]


def to_float(v):
    if isinstance(v, mp.mpc):
        return complex(v)
    return float(v)
