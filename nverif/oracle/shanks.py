"""Exact (Fraction) oracles for the Shanks / Wynn-epsilon extrapolators (C13, C14).

Nothing here imports numdifftools.  Floats are rationals: Fraction(float) is exact.
"""
from fractions import Fraction

EPS = Fraction(1, 2 ** 52)          # machine epsilon of binary64
U = Fraction(1, 2 ** 53)            # unit round-off
WIDEN = 4                           # guards are classified with a factor-4 safety band
IRREGULAR = Fraction(1, 10 ** 4)    # the documented |sss*e1| <= 1e-4 guard


def F(x):
    return x if isinstance(x, Fraction) else Fraction(x)


def geometric_terms(L, a, q, k, count=3):
    """Exact L + a q^(k+i), i < count, and their correctly rounded floats."""
    L, a, q = F(L), F(a), F(q)
    exact = [L + a * q ** (k + i) for i in range(count)]
    return exact, [float(v) for v in exact]


def _band(x, threshold):
    """'fired' if x <= threshold/WIDEN, 'clear' if x > threshold*WIDEN, else 'borderline'."""
    if x * WIDEN <= threshold:
        return 'fired'
    if x > threshold * WIDEN:
        return 'clear'
    return 'borderline'


def shanks_analysis(e0, e1, e2):
    """Three-term Shanks transform of three floats, exactly.

    Returns a dict: S (Fraction or None), corr = 1/sss (Fraction or None), kappa (Fraction or
    None), eps_guard / irregular_guard in {'fired', 'clear', 'borderline'} and T, the rounding
    unit  eps*[max|e_i| (1 + kappa) + |1/sss| + |S|]  (Fraction, None if S is undefined);
    kappa_box / T_box: the same with kappa maximised over the rounding box of the inputs
    (None when ``resolved`` is False).
    """
    f0, f1, f2 = F(e0), F(e1), F(e2)
    d1, d2 = f1 - f0, f2 - f1
    tol1 = max(abs(f1), abs(f0)) * EPS
    tol2 = max(abs(f2), abs(f1)) * EPS
    g1 = 'fired' if d1 == 0 else _band(abs(d1), tol1)
    g2 = 'fired' if d2 == 0 else _band(abs(d2), tol2)
    order = {'fired': 0, 'borderline': 1, 'clear': 2}
    eps_guard = min((g1, g2), key=order.get)
    out = dict(d1=d1, d2=d2, S=None, corr=None, kappa=None, T=None, sss=None, resolved=False,
               kappa_box=None, T_box=None,
               eps_guard=eps_guard, irregular_guard='fired')
    if d1 == 0 or d2 == 0 or d1 == d2:
        return out          # sss is 0 or undefined: the irregular guard (or the eps guard) applies
    sss = 1 / d2 - 1 / d1
    corr = 1 / sss
    S = f1 + corr
    kappa = (d1 * d1 + d2 * d2) / ((d2 - d1) ** 2)
    emax = max(abs(f0), abs(f1), abs(f2))
    out.update(S=S, corr=corr, kappa=kappa, sss=sss,
               T=EPS * (emax * (1 + kappa) + abs(corr) + abs(S)),
               irregular_guard=_band(abs(sss * f1), IRREGULAR))
    # The same conditioning taken at the worst point of the input-rounding box |de_i| <= u |e_i|:
    # each difference moves by at most p1 = 2u*emax and d2 - d1 by at most p2 = 4u*emax.  When
    # |d2 - d1| <= 2 p2 the rounded terms do not resolve the curvature and no bound exists.
    p1, p2 = 2 * U * emax, 4 * U * emax
    gap = abs(d2 - d1)
    out['resolved'] = gap > 2 * p2
    if out['resolved']:
        kbox = ((abs(d1) + p1) ** 2 + (abs(d2) + p1) ** 2) / ((gap - p2) ** 2)
        out['kappa_box'] = kbox
        out['T_box'] = EPS * (emax * (1 + kbox) + abs(corr) + abs(S))
    return out


# ---------------------------------------------------------------------------------------------
# Wynn's epsilon table with a rigorous running-error bound for the float recursion
#     eps_{k+1}^{(j)} = eps_{k-1}^{(j+1)} + 1/(eps_k^{(j+1)} - eps_k^{(j)})
# evaluated as  fl(a + fl(1/fl(x - y))).
# ---------------------------------------------------------------------------------------------

INF = float('inf')


def _fl(x):
    """float(|x|) of a Fraction, inf on overflow."""
    try:
        return float(abs(x))
    except OverflowError:
        return INF


def epsilon_table_bounds(seq, maxcol=None):
    """cols[k][j] = (E, B): E = exact eps_k^{(j)} of the float sequence (Fraction) and B a bound
    (float) on |computed - E| for the three-rounding float evaluation above.  E is None where a
    defining difference vanished (or depends on such an entry); B is inf where the bound is not
    valid (perturbed difference could change sign or shrink by more than half).
    """
    s = [F(v) for v in seq]
    n = len(s)
    if maxcol is None:
        maxcol = n - 1
    u = float(U)
    prev = [(Fraction(0), 0.0)] * (n + 1)
    cur = [(v, 0.0) for v in s]
    cols = [cur]
    for k in range(1, min(n - 1, maxcol) + 1):
        nxt = []
        for j in range(n - k):
            (a, Ba), (x, Bx), (y, By) = prev[j + 1], cur[j + 1], cur[j]
            if a is None or x is None or y is None or x == y:
                nxt.append((None, INF))
                continue
            D = x - y
            E = a + 1 / D
            aD = _fl(D)
            Bd = (Bx + By) * (1 + u) + u * aD          # error of fl(x~ - y~) w.r.t. D
            if not (Bd < 0.5 * aD) or aD <= 4e-60 or aD == INF:
                nxt.append((E, INF))
                continue
            inv = 1.0 / (aD - Bd)
            Binv = Bd / (aD * (aD - Bd)) + u * inv     # error of fl(1/delta~) w.r.t. 1/D
            B = (Ba + Binv) * (1 + u) + u * (_fl(E) + Ba + Binv)
            nxt.append((E, B * (1 + 1e-9)))
        cols.append(nxt)
        prev, cur = cur, nxt
    return cols


def epsalg_target(cols, n):
    """Entry EpsAlg must return after the term with 0-based index n: eps_{2 floor(n/2)}^{(n mod 2)}."""
    k = 2 * (n // 2)
    return cols[k][n - k]
