"""Analytic function family for C17 (and the g-family of C18): one JSON spec, three back ends.

Spec (nested lists, JSON-serialisable; complex parameters as [re, im]):
    ['exp', a]        exp(a z)                entire
    ['sin', a]        sin(a z)                entire
    ['cos', a]        cos(a z)                entire
    ['inv', b]        1 / (b - z)             pole at z = b
    ['log', b]        log(b + z)              branch point at z = -b (principal branch)
    ['pow', b, p]     (b + z) ** p            branch point at z = -b, p real non-integer
    ['poly', [c0, c1, ...]]                   sum c_j z^j
    ['mul', s1, s2]   product                 ['add', s1, s2]   sum
    ['cexp', s] ['csin', s] ['ccos', s]       entire outer function of s(z)

Back ends:
  * ``np_callable(spec)``  - what a user would write with numpy (accepts complex ndarrays);
  * ``exact_coefs(spec, z0, K)`` - Taylor coefficients c_0..c_{K-1} at z0 in mpmath (60 digits):
    closed forms for the atoms (written here, independent of the Jet class), Cauchy products /
    jets (nverif.oracle.jets) for products and compositions;
  * ``singularities(spec)`` - the finite singular points of the atoms (list of complex): the
    distance from z0 to the nearest one is the radius of convergence *by construction*.  For
    log/pow atoms the generator keeps Re(z0 + b) >= 0 so that the principal branch numpy
    evaluates is analytic on the whole open disc of that radius (the cut leaves -b leftwards).
Nothing here comes from numdifftools.
"""
import mpmath as mp
import numpy as np

from nverif.oracle.jets import Jet

ATOMS = ('exp', 'sin', 'cos', 'inv', 'log', 'pow', 'poly')


def cx(v):
    """[re, im] | number -> python complex."""
    if isinstance(v, (list, tuple)):
        return complex(v[0], v[1])
    return complex(v)


def mpc_(v):
    """Exact conversion of a float / [re, im] / complex to mpmath."""
    c = cx(v)
    return mp.mpc(mp.mpf(c.real), mp.mpf(c.imag))


def is_polynomial(spec):
    t = spec[0]
    if t == 'poly':
        return True
    if t in ('mul', 'add'):
        return is_polynomial(spec[1]) and is_polynomial(spec[2])
    return False


def atoms(spec, acc=None):
    acc = [] if acc is None else acc
    if spec[0] in ATOMS:
        acc.append(spec)
    else:
        for s in spec[1:]:
            if isinstance(s, (list, tuple)) and s and isinstance(s[0], str):
                atoms(s, acc)
    return acc


def singularities(spec):
    out = []
    for a in atoms(spec):
        if a[0] == 'inv':
            out.append(cx(a[1]))
        elif a[0] in ('log', 'pow'):
            out.append(-cx(a[1]))
    return out


def distance(spec, z0):
    s = singularities(spec)
    return min(abs(p - z0) for p in s) if s else float('inf')


def show(spec):
    t = spec[0]

    def c(v):
        v = cx(v)
        return ('%.6g' % v.real) if v.imag == 0 else ('(%.6g%+.6gj)' % (v.real, v.imag))
    if t in ('exp', 'sin', 'cos'):
        return '%s(%s z)' % (t, c(spec[1]))
    if t == 'inv':
        return '1/(%s - z)' % c(spec[1])
    if t == 'log':
        return 'log(%s + z)' % c(spec[1])
    if t == 'pow':
        return '(%s + z)**%r' % (c(spec[1]), spec[2])
    if t == 'poly':
        return 'poly[%s]' % ', '.join(c(v) for v in spec[1])
    if t == 'mul':
        return '%s * %s' % (show(spec[1]), show(spec[2]))
    if t == 'add':
        return '(%s + %s)' % (show(spec[1]), show(spec[2]))
    return '%s(%s)' % (t[1:], show(spec[1]))


# --------------------------------------------------------------------------------------
# numpy back end
# --------------------------------------------------------------------------------------

def _np_eval(spec, z):
    t = spec[0]
    if t == 'exp':
        return np.exp(cx(spec[1]) * z)
    if t == 'sin':
        return np.sin(cx(spec[1]) * z)
    if t == 'cos':
        return np.cos(cx(spec[1]) * z)
    if t == 'inv':
        return 1.0 / (cx(spec[1]) - z)
    if t == 'log':
        return np.log(cx(spec[1]) + z)
    if t == 'pow':
        return (cx(spec[1]) + z) ** float(spec[2])
    if t == 'poly':
        res = 0.0 * z + cx(spec[1][-1])
        for c in spec[1][-2::-1]:
            res = res * z + cx(c)
        return res
    if t == 'mul':
        return _np_eval(spec[1], z) * _np_eval(spec[2], z)
    if t == 'add':
        return _np_eval(spec[1], z) + _np_eval(spec[2], z)
    if t == 'cexp':
        return np.exp(_np_eval(spec[1], z))
    if t == 'csin':
        return np.sin(_np_eval(spec[1], z))
    if t == 'ccos':
        return np.cos(_np_eval(spec[1], z))
    raise ValueError(t)


def np_callable(spec, log=None):
    """f(z) for complex scalars / ndarrays.  ``log`` (a list) receives (number of points, first
    point) of every argument (0 points for a scalar), so a check can count and locate the
    circle evaluations."""
    def f(z):
        z = np.asarray(z) + 0j
        if log is not None:
            log.append((int(z.size) if z.ndim else 0, complex(z.flat[0])))
        with np.errstate(all='ignore'):
            return _np_eval(spec, z)
    return f


# --------------------------------------------------------------------------------------
# exact Taylor coefficients
# --------------------------------------------------------------------------------------

def _atom_coefs(spec, z0, K):
    t = spec[0]
    z0 = mpc_(z0)
    if t in ('exp', 'sin', 'cos'):
        a = mpc_(spec[1])
        u = a * z0
        out = []
        ak = mp.mpf(1)
        half_pi = mp.pi / 2
        for k in range(K):
            if t == 'exp':
                v = mp.exp(u)
            elif t == 'sin':
                v = mp.sin(u + k * half_pi)
            else:
                v = mp.cos(u + k * half_pi)
            out.append(v * ak / mp.factorial(k))
            ak = ak * a
        return out
    if t == 'inv':
        w = mpc_(spec[1]) - z0
        return [1 / w ** (k + 1) for k in range(K)]
    if t == 'log':
        w = mpc_(spec[1]) + z0
        return [mp.log(w)] + [(-1) ** (k + 1) / (k * w ** k) for k in range(1, K)]
    if t == 'pow':
        w = mpc_(spec[1]) + z0
        p = mp.mpf(spec[2])
        out = []
        binom = mp.mpf(1)
        for k in range(K):
            out.append(binom * mp.power(w, p - k))
            binom = binom * (p - k) / (k + 1)
        return out
    if t == 'poly':
        # Taylor shift: c_k = sum_j C(j, k) a_j z0^(j-k)
        a = [mpc_(c) for c in spec[1]]
        out = []
        for k in range(K):
            out.append(mp.fsum(mp.binomial(j, k) * a[j] * z0 ** (j - k) for j in range(k, len(a))))
        return out
    raise ValueError(t)


def _jet(spec, z0, K):
    t = spec[0]
    if t in ATOMS:
        return Jet(_atom_coefs(spec, z0, K))
    if t == 'mul':
        return _jet(spec[1], z0, K) * _jet(spec[2], z0, K)
    if t == 'add':
        return _jet(spec[1], z0, K) + _jet(spec[2], z0, K)
    if t == 'cexp':
        return _jet(spec[1], z0, K).exp()
    if t == 'csin':
        return _jet(spec[1], z0, K).sin()
    if t == 'ccos':
        return _jet(spec[1], z0, K).cos()
    raise ValueError(t)


DPS_DEFAULT = 200


def exact_coefs(spec, z0, K, dps=DPS_DEFAULT):
    """c_0 .. c_{K-1} of the spec at z0 (list of mpmath numbers), computed with ``dps`` digits.

    The Cauchy products cancel: the k-th coefficient of exp(a z) exp(b z) is a sum of terms of size
    (|a| + |b|)^k / k! adding up to (a + b)^k / k!, which loses k*log10((|a|+|b|)/|a+b|) digits
    (56 digits for exp(-0.5233 z) exp(0.5623 z) at k = 39: at 60 digits the "exact" value was 4e-6
    off).  Hence 200 digits by default, and callers re-run at 600 digits before reporting."""
    K = max(int(K), 2)
    with mp.workdps(int(dps)):
        return [mp.mpc(c) for c in _jet(spec, z0, K).c]


def mp_eval(spec, z):
    """Value of the spec at the mpmath point z (second route for cross-checks)."""
    t = spec[0]
    if t == 'exp':
        return mp.exp(mpc_(spec[1]) * z)
    if t == 'sin':
        return mp.sin(mpc_(spec[1]) * z)
    if t == 'cos':
        return mp.cos(mpc_(spec[1]) * z)
    if t == 'inv':
        return 1 / (mpc_(spec[1]) - z)
    if t == 'log':
        return mp.log(mpc_(spec[1]) + z)
    if t == 'pow':
        return mp.power(mpc_(spec[1]) + z, mp.mpf(spec[2]))
    if t == 'poly':
        return mp.polyval([mpc_(c) for c in spec[1]][::-1], z)
    if t == 'mul':
        return mp_eval(spec[1], z) * mp_eval(spec[2], z)
    if t == 'add':
        return mp_eval(spec[1], z) + mp_eval(spec[2], z)
    if t == 'cexp':
        return mp.exp(mp_eval(spec[1], z))
    if t == 'csin':
        return mp.sin(mp_eval(spec[1], z))
    if t == 'ccos':
        return mp.cos(mp_eval(spec[1], z))
    raise ValueError(t)
