"""Exact n-th derivative weights of a Lagrange stencil, in integer arithmetic (fast).

Floats are dyadic rationals: with a common denominator D = 2**q every node is an integer
X_j = D * x_j.  In the variable X the weight of node i for the n-th derivative at X0 is

    w_i = n! * [s**n]  prod_{j != i} (s + X0 - X_j)  /  prod_{j != i} (X_i - X_j)

(the Lagrange basis polynomial expanded in s = X - X0), and d^n/dx^n = D**n d^n/dX^n.
The numerator polynomial of node i is obtained from the master product over *all* nodes by one
synthetic division, so a stencil costs O(size**2) big-integer operations instead of the
O(size**3) Fraction operations of :func:`nverif.oracle.rational.lagrange_derivative_weights`
(the two are compared on every import and, by the callers, on sampled stencils).
"""
from fractions import Fraction
from math import factorial


def common_scale(values):
    """Smallest D = 2**q such that D*v is an integer for every float v in ``values``."""
    D = 1
    for v in values:
        d = Fraction(v).denominator
        if d > D:
            D = d
    return D


def to_int(values, D):
    out = []
    for v in values:
        f = Fraction(v) * D
        assert f.denominator == 1
        out.append(f.numerator)
    return out


def stencil_weights_int(Xs, X0, n):
    """Exact weights (Fractions, in units of the integer variable X) of the n-th derivative at X0."""
    size = len(Xs)
    if n > size - 1:
        return [Fraction(0)] * size
    d = [X0 - Xj for Xj in Xs]
    # master polynomial M(s) = prod_j (s + d_j); M[k] multiplies s**k
    M = [1]
    for dj in d:
        new = [0] * (len(M) + 1)
        for k, c in enumerate(M):
            new[k] += c * dj
            new[k + 1] += c
        M = new
    fac = factorial(n)
    W = []
    for i in range(size):
        # Q = M / (s + d_i):  q_{size-1} = 1,  q_{k-1} = M[k] - d_i * q_k ; we need q_n
        q = 1
        for k in range(size - 1, n, -1):
            q = M[k] - d[i] * q
        den = 1
        Xi = Xs[i]
        for j, Xj in enumerate(Xs):
            if j != i:
                den *= Xi - Xj
        W.append(Fraction(fac * q, den))
    return W


def stencil_weights(nodes, x0, n):
    """Exact weights (Fractions) of the n-th derivative at x0 for float ``nodes``."""
    D = common_scale(list(nodes) + [x0])
    Xs = to_int(nodes, D)
    X0 = to_int([x0], D)[0]
    scale = D ** n
    return [w * scale for w in stencil_weights_int(Xs, X0, n)]


def _selftest():
    from nverif.oracle.rational import lagrange_derivative_weights
    nodes = [0.1, 0.25, -0.375, 1.7, 2.05, 3.0, -1.1]
    for x0 in (0.25, 0.3, 3.0):
        for n in range(0, 7):
            a = stencil_weights(nodes, x0, n)
            b = lagrange_derivative_weights(nodes, x0, n)[n]
            assert a == b, (x0, n)


_selftest()
