"""Idempotent back end for expression programs (C12).

A bicomplex number z1 + j z2 (z1, z2 complex, j^2 = -1, ij = ji) decomposes as
    z = e1 (z1 - i z2) + e2 (z1 + i z2),   e1 = (1 + ij)/2, e2 = (1 - ij)/2, e1 e2 = 0,
so the holomorphic extension of f is F(z) = e1 f(z1 - i z2) + e2 f(z1 + i z2):
    F.z1 = (fa + fb)/2,   F.z2 = i (fa - fb)/2,   fa = f(z1 - i z2), fb = f(z1 + i z2).

Values are evaluated with mpmath (60 digits, principal branches) on the two components.  Next
to the value every node carries a first-order *rounding-error bound* E (in units of eps), the
conditioning factor of the tolerance:

    x, constants            E = 0
    u + w, u - w            E = E_u + E_w + M(v)
    u * w                   E = M(w) E_u + M(u) E_w + M(u) M(w) + eps E_u E_w
    f(u)   (named function) E = max|f'(u)| E_u + floor_f + M(v) + max|u f'(u)|
    tan, cot, sec, csc, tanh, coth, sech, csch: value from mpmath's function, E from the quotient
                            the class forms (sin/cos, cos/sin, 1/cos, ...; division as below)
    1 / u                   E = E_u/m(u)^2 + M(v) (1 + M(u)/m(u))     (conjugate / (z1^2 + z2^2))
    u ** k, integer k       the binary multiplication scheme (products as above); 1/u first if k < 0
    u ** p, other p         via exp(p log u), the route the class takes (log(u): E_u/m(u) + L + 1,
                            L = max|ln|u|| + max|arg u|); every real part must be positive
    u / w                   u * (1/w)

M(.) / m(.) = largest / smallest modulus of the two idempotent components (the max-norm is
sub-multiplicative, and |z1|, |z2| <= M).  floor_f = 1 for the inverse functions that are formed
as the logarithm of an O(1) quantity (arcsin, arccos, arctan, arcsinh, arccosh, arctanh): their
absolute error is eps * O(1) however small the value is.
Nothing here comes from numdifftools or numpy's ufuncs.
"""
import math

import mpmath as mp

from nverif.oracle.jets import DPS, Jet, JetDomainError

mp.mp.dps = DPS
EPS = 2.0 ** -52
RECIP = {'cot': 'tan', 'sec': 'cos', 'csc': 'sin', 'coth': 'tanh', 'sech': 'cosh', 'csch': 'sinh'}
QUOT = {'tan': ('sin', 'cos'), 'cot': ('cos', 'sin'), 'sec': (None, 'cos'), 'csc': (None, 'sin'),
        'tanh': ('sinh', 'cosh'), 'coth': ('cosh', 'sinh'), 'sech': (None, 'cosh'), 'csch': (None, 'sinh')}
LOG_FLOOR = ('arcsin', 'arccos', 'arctan', 'arcsinh', 'arccosh', 'arctanh')
NAMES26 = ['exp', 'log', 'sqrt', 'sin', 'cos', 'tan', 'cot', 'sec', 'csc', 'sinh', 'cosh', 'tanh',
           'coth', 'sech', 'csch', 'arcsin', 'arccos', 'arctan', 'arcsinh', 'arccosh', 'arctanh',
           'expm1', 'log1p', 'log2', 'log10', 'exp2']

_LN2 = mp.log(2)
_LN10 = mp.log(10)
MP_FUN = {
    'exp': mp.exp, 'log': mp.log, 'sqrt': mp.sqrt, 'sin': mp.sin, 'cos': mp.cos, 'tan': mp.tan,
    'cot': mp.cot, 'sec': mp.sec, 'csc': mp.csc, 'sinh': mp.sinh, 'cosh': mp.cosh,
    'tanh': mp.tanh, 'coth': mp.coth, 'sech': mp.sech, 'csch': mp.csch, 'arcsin': mp.asin,
    'arccos': mp.acos, 'arctan': mp.atan, 'arcsinh': mp.asinh, 'arccosh': mp.acosh,
    'arctanh': mp.atanh, 'expm1': mp.expm1, 'log1p': mp.log1p,
    'log2': lambda v: mp.log(v) / _LN2, 'log10': lambda v: mp.log(v) / _LN10,
    'exp2': lambda v: mp.exp(v * _LN2),
}


class IdemDomainError(Exception):
    """The program leaves the (principal-branch) domain on an idempotent component."""


def mpc(re, im=0.0):
    return mp.mpc(mp.mpf(re), mp.mpf(im))


def components(z1, z2):
    """(a, b) = (z1 - i z2, z1 + i z2) exactly, from z1 = [re, im], z2 = [re, im] (floats)."""
    r1, i1, r2, i2 = (mp.mpf(float(v)) for v in (z1[0], z1[1], z2[0], z2[1]))
    return mp.mpc(r1 + i2, i1 - r2), mp.mpc(r1 - i2, i1 + r2)


def recombine(fa, fb):
    """[Re z1, Im z1, Re z2, Im z2] of e1 fa + e2 fb."""
    z1 = (fa + fb) / 2
    z2 = mp.mpc(0, 1) * (fa - fb) / 2
    return [mp.re(z1), mp.im(z1), mp.re(z2), mp.im(z2)]


def _fabs(v):
    return float(abs(v))


class EV(object):
    """Value on both idempotent components + rounding-error bound (eps units)."""
    __slots__ = ('a', 'b', 'e')

    def __init__(self, a, b, e=0.0):
        self.a, self.b, self.e = a, b, float(e)

    @property
    def M(self):
        return max(_fabs(self.a), _fabs(self.b))

    @property
    def m(self):
        return min(_fabs(self.a), _fabs(self.b))

    def recombined(self):
        return recombine(self.a, self.b)


def const(c):
    if isinstance(c, complex):
        v = mpc(c.real, c.imag)
    else:
        v = mp.mpf(float(c)) + mp.mpc(0)
    return EV(v, v, 0.0)


class Evaluator(object):
    """Evaluates trees / single operations on EVs and records what was met on the way:
    ``neg``  = operations whose library route takes the logarithm of a quantity with a
               non-positive real part (division, powers, tan/sec/cot/csc/coth/csch ...),
    ``big``  = {name: largest |Re argument|} for tanh / coth,
    ``regimes`` = neg entries as '<op>:neg' (and '<op>:mixed' when the real parts of the two
               components have opposite signs or one is zero) plus '<op>:huge' / '<op>:tiny' (modulus beyond 1e+-150), 'tanh:over300', 'log1p:huge', 'arctan:neg' / 'arctan:mixed' (real parts of the components of 1 -+ j z), 'arcsinh:neg' (argument with a
               negative real part), 'log1p:re<-0.5'  (used to classify findings only),
    ``kappa``= largest M/m of a quantity that is inverted or whose logarithm is taken."""

    def __init__(self, recip_as_division=False):
        self.recip_as_division = recip_as_division
        self.neg = set()
        self.regimes = set()
        self.big = {}
        self.kappa = 1.0

    # ---- helpers -----------------------------------------------------------------
    def _note_log_arg(self, what, u):
        if u.m == 0:
            raise IdemDomainError('%s of a zero component' % what)
        self.kappa = max(self.kappa, u.M / u.m)
        if u.M > 1e150:
            self.regimes.add(what + ':huge')          # |u|^2 overflows in the class's complex modulus
        if u.m < 1e-150:
            self.regimes.add(what + ':tiny')
        if min(mp.re(u.a), mp.re(u.b)) <= 0:
            self.neg.add(what)
            self.regimes.add(what + ':neg')
            if max(mp.re(u.a), mp.re(u.b)) >= 0:
                self.regimes.add(what + ':mixed')     # components on both sides of the imaginary axis
            return True
        return False

    def _log_size(self, u, neg):
        ln = max(abs(math.log(_fabs(u.a))), abs(math.log(_fabs(u.b))))
        ang = math.pi if neg else max(abs(float(mp.arg(u.a))), abs(float(mp.arg(u.b))))
        return ln + ang

    # ---- ring --------------------------------------------------------------------
    def add(self, u, w, sign=1):
        a = u.a + sign * w.a
        b = u.b + sign * w.b
        v = EV(a, b)
        v.e = u.e + w.e + v.M
        return v

    def mul(self, u, w):
        v = EV(u.a * w.a, u.b * w.b)
        v.e = w.M * u.e + u.M * w.e + u.M * w.M + EPS * u.e * w.e      # last: second-order term
        return v

    def inverse(self, u, what='div'):
        """1/u as the class forms it: conjugate(u) / (z1^2 + z2^2); z1^2 + z2^2 = u_a u_b carries the
        relative error eps (|z1|^2 + |z2|^2)/|u_a u_b| <= 2 eps M/m."""
        self._note_log_arg(what, u)
        v = EV(1 / u.a, 1 / u.b)
        v.e = u.e / u.m / u.m + v.M * (1.0 + u.M / u.m)
        return v

    def ipower(self, u, k, what='powi'):
        """Integer power by the binary multiplication scheme the class uses (single valued)."""
        if k < 0:
            return self.ipower(self.inverse(u, what), -k, what)
        if u.m > 0:
            self._note_log_arg(what, u)          # bookkeeping of the regimes only
        result = const(1.0)
        base = u
        while k > 0:
            if k % 2 == 1:
                result = self.mul(result, base)
            base = self.mul(base, base)
            k //= 2
        return result

    def power(self, u, p, what='pow'):
        """u ** p, p a Python int / float / complex or an EV.  Integer-valued real p: ring operations.
        Otherwise exp(p log u) on the principal branch (every real part must then be positive)."""
        if isinstance(p, int) or (isinstance(p, float) and p == int(p) and abs(p) < 1024):
            return self.ipower(u, int(p), what)
        neg = self._note_log_arg(what, u)
        if neg:
            raise IdemDomainError('non-integer power of a quantity with real part <= 0')
        if isinstance(p, EV):
            v = EV(mp.exp(p.a * mp.log(u.a)), mp.exp(p.b * mp.log(u.b)))
        else:
            pm = mpc(p.real, p.imag) if isinstance(p, complex) else mp.mpf(float(p))
            v = EV(mp.exp(pm * mp.log(u.a)), mp.exp(pm * mp.log(u.b)))
        L = self._log_size(u, neg)
        e_t = u.e / u.m + L + 1.0
        if isinstance(p, EV):
            Mp, ep = p.M, p.e
        else:
            Mp, ep = abs(p), 0.0
        Ms = Mp * L
        e_s = Mp * e_t + L * ep + Ms
        Mv = v.M
        v.e = Mv * e_s + Mv * (1.0 + Ms)
        return v

    def rpower(self, base, w):
        """base ** w for a positive real / non-zero complex scalar base: exp(w log base)."""
        lb = mp.log(mpc(base.real, base.imag) if isinstance(base, complex) else mp.mpf(float(base)))
        L = _fabs(lb)
        v = EV(mp.exp(w.a * lb), mp.exp(w.b * lb))
        Ms = w.M * L
        e_s = L * w.e + Ms
        v.e = v.M * e_s + v.M * (1.0 + Ms)
        return v

    def div(self, u, w, what='div'):
        return self.mul(u, self.inverse(w, what))

    # ---- named functions -----------------------------------------------------------
    def unary(self, name, u):
        if self.recip_as_division and name in RECIP:
            return self.div(const(1.0), self.unary(RECIP[name], u))
        f = MP_FUN[name]
        self._domain(name, u)
        try:
            va, vb = f(u.a), f(u.b)
            ja = getattr(Jet([u.a, mp.mpf(1)]), name)()
            jb = getattr(Jet([u.b, mp.mpf(1)]), name)()
        except (ZeroDivisionError, ValueError, OverflowError, JetDomainError) as exc:
            raise IdemDomainError('%s: %s' % (name, exc))
        # the two independent routes to the value (mpmath's function, jet recurrences) agree
        for direct, jet in ((va, ja.c[0]), (vb, jb.c[0])):
            if abs(direct - jet) > mp.mpf(10) ** (-40) * (abs(direct) + abs(jet) + mp.mpf(10) ** -300):
                raise RuntimeError('oracle self-check failed for %s at %s' % (name, mp.nstr(u.a, 20)))
        da, db = _fabs(ja.c[1]), _fabs(jb.c[1])
        v = EV(va, vb)
        if name in QUOT:
            num, den = QUOT[name]
            q = self.div(const(1.0) if num is None else self.unary(num, u), self.unary(den, u), what=name)
            v.e = q.e
            return v
        floor = 1.0 if name in LOG_FLOOR else 0.0
        v.e = max(da, db) * u.e + floor + v.M + max(da * _fabs(u.a), db * _fabs(u.b))
        return v

    def _domain(self, name, u):
        """Bookkeeping only (which library route meets a non-positive real part, how large the
        tanh / coth argument is); the analyticity of the program on the sampled region is certified
        separately by the Ball back end."""
        lo = float(min(mp.re(u.a), mp.re(u.b)))
        if name in ('tanh', 'coth'):
            big = max(abs(float(mp.re(u.a))), abs(float(mp.re(u.b))))
            self.big[name] = max(self.big.get(name, 0.0), big)
            if big > 300.0:
                self.regimes.add('tanh:over300')
        if name == 'arcsinh' and lo < 0:
            self.regimes.add('arcsinh:neg')
        if name == 'log1p' and lo < -0.5:
            self.regimes.add('log1p:re<-0.5')
        if name == 'log1p' and u.M > 1e70:
            self.regimes.add('log1p:huge')
        if name in ('arcsin', 'arccos'):
            # the class forms log(j z + sqrt(1 - z^2)); same root cause as arctan when its components
            # straddle the imaginary axis, hence the same tag
            try:
                p = mp.im(u.a) + mp.re(mp.sqrt(1 - u.a * u.a))
                q = -mp.im(u.b) + mp.re(mp.sqrt(1 - u.b * u.b))
                if min(p, q) <= 0 <= max(p, q):
                    self.regimes.add('arctan:mixed')
            except (ValueError, ZeroDivisionError):
                pass
        if name == 'arctan':
            # the class forms log(1 - j z) - log(1 + j z); idempotent components 1 -+ i u_a, 1 +- i u_b
            ia, ib = mp.im(u.a), mp.im(u.b)
            for p, q in ((1 - ia, 1 + ib), (1 + ia, 1 - ib)):
                if min(p, q) <= 0:
                    self.regimes.add('arctan:mixed' if max(p, q) >= 0 else 'arctan:neg')
        if name in ('log', 'log2', 'log10', 'sqrt'):
            if self._note_log_arg(name, u):
                raise IdemDomainError('%s of a quantity with real part <= 0' % name)

    # ---- trees -----------------------------------------------------------------------
    def tree(self, e, X):
        t = e[0]
        if t == 'x':
            return X
        if t == 'c':
            return const(e[1])
        if t == 'u':
            return self.unary(e[1], self.tree(e[2], X))
        if t in ('powi', 'powr'):
            return self.power(self.tree(e[1], X), e[2], what=t)
        a = self.tree(e[1], X)
        b = self.tree(e[2], X)
        if t == '+':
            return self.add(a, b)
        if t == '-':
            return self.add(a, b, -1)
        if t == '*':
            return self.mul(a, b)
        if t == '/':
            return self.div(a, b)
        raise ValueError(t)


def argument(z1, z2):
    a, b = components(z1, z2)
    return EV(a, b, 0.0)
