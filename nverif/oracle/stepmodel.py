"""Closed-form model of the documented step sequences (DESIGN 3.4 / C10).

Written from the class docstrings and constructor signatures of MinStepGenerator,
MaxStepGenerator (numdifftools.step_generators) and CStepGenerator (numdifftools.limits):

    Min / CStep :  steps = B * r**(i + offset),   i = N-1, ..., 1, 0     (decreasing magnitude)
    Max         :  steps = B * r**(-i + offset),  i = 0, 1, ..., N-1
    B = base_step * step_nom(x), passed through (v + 1) - 1 iff use_exact_steps (as is r)
    base_step default EPS**(1/scale);  scale default: table by (method, n, order)
    step_nom default: "maximum(log(e + |x|), 1)" in the docstrings, log(e - 1 + |x|) clipped at 1
        in the code; the property promises log-growth in |x| and at least 1, so the model accepts
        the interval [max(1, log(1+|x|)), max(1, log(e+|x|))]  (a point, 1, at x == 0)
    r default 2 (n == 1) else 1.6;  CStep: 4, times exp(1j*dtheta) on a spiral path
    N default max((n + order - 1)//d, 1) + num_extrap, d = 1 (forward, backward), 2 (central,
        multicomplex, complex with n == 1 and order < 4), 4 (other complex); an explicit num_steps
        is raised to that minimum iff check_num_steps;  MaxStepGenerator() defaults 15 / 9;
        CStep default 2*round(16/ln|r|) + 1, explicit value taken as is
    steps that are zero are dropped.

Public entry points
    resolve(cls, options, x, method, n, order) -> Resolved   (intervals, used by C10)
    model_steps(cls, options, x, method, n, order, nominal='code'|'doc') -> list of arrays
    default_scale, min_num_steps, rule_length, nominal_interval
"""
import cmath
import math

import mpmath
import numpy as np

EPS = 2.0 ** -52                      # np.finfo(float).eps
PREC = 200                            # bits used for "exact" powers
METHODS = ('central', 'forward', 'backward', 'complex', 'multicomplex')

SIGNATURE_DEFAULTS = {
    'min': dict(base_step=None, step_ratio=None, num_steps=None, step_nom=None, offset=0,
                num_extrap=0, use_exact_steps=True, check_num_steps=True, scale=None),
    'max': dict(base_step=2.0, step_ratio=None, num_steps=15, step_nom=None, offset=0,
                num_extrap=9, use_exact_steps=False, check_num_steps=True, scale=500),
    'cstep': dict(base_step=None, step_ratio=4.0, num_steps=None, step_nom=None, offset=0,
                  num_extrap=0, use_exact_steps=True, check_num_steps=True, scale=1.2,
                  path='radial', dtheta=math.pi / 8),
}


def default_scale(method, n, order):
    """The table of default scales: base_step = EPS**(1/scale)."""
    higher = max(order // 2 - 1, 0)
    if method == 'multicomplex':
        return 1.06
    if method == 'complex':
        extra = 0.0
        if n > 1 or order >= 4:
            q, rem = divmod(n, 4)
            extra = (q * (10 + (1.5 if n > 10 else 0.0)),
                     3.65 + q * (5 + 1.5 ** q),
                     3.65 + q * (5 + 1.7 ** q),
                     7.30 + q * (5 + 2.1 ** q))[rem]
        return 1.06 + extra
    per_order = {'central': 3, 'forward': 2, 'backward': 2}.get(method, 0)
    return 2.5 + 1.3 * (n - 1) + per_order * higher


def num_step_divisor(method, n, order):
    if method in ('central', 'central2', 'multicomplex'):
        return 2
    if method == 'complex':
        return 4 if (n > 1 or order >= 4) else 2
    return 1


def min_num_steps(method, n, order):
    """min_num_steps = (n + order - 1) / fact, fact in {1, 2, 4}, at least 1."""
    return max((n + order - 1) // num_step_divisor(method, n, order), 1)


def rule_length(method, n, order):
    """Number of steps the log-spaced finite-difference rule consumes (closed form; informative)."""
    if method == 'multicomplex':
        return 1
    step = num_step_divisor(method, n, order)
    method_order = max((order // step) * step, step)
    return (n - 1 + method_order) // step


def nominal_interval(absx):
    """Accepted values of the default nominal step at |x| = absx."""
    if absx == 0:
        return 1.0, 1.0
    return max(1.0, math.log1p(absx)), max(1.0, math.log(math.e + absx))


def _exact(v):
    return (v + 1.0) - 1.0


class Resolved(object):
    """What the documentation fixes about one call gen(x, method, n, order).

    counts    : tuple of admissible numbers of generated steps before zero-dropping (one value,
                two only when 16/ln|r| is numerically a half-integer for the CStep default)
    ratio     : float, or complex on a spiral path (after (v+1)-1 iff use_exact_steps)
    sign      : +1 (Min, CStep) or -1 (Max);   offset : as given
    exponents(N) -> list of floats fl(sign*i + offset) in generation order
    shape     : broadcast shape of x and base_step
    b_lo,b_hi : arrays of ``shape``: the interval that must contain B (a point when the nominal
                step is pinned, i.e. step_nom given or x == 0, and base_step is given)
    pinned    : True when b_lo == b_hi everywhere
    """

    def exponents(self, count):
        idx = range(count - 1, -1, -1) if self.sign > 0 else range(count)
        return [self.sign * i + self.offset for i in idx]


def _abs_array(x):
    if isinstance(x, (list, tuple)) or isinstance(x, np.ndarray):
        return np.abs(np.asarray(x))
    return np.asarray(abs(x), dtype=float)


def resolve(cls, options, x, method='forward', n=1, order=2, base_slack_ulp=64, nom_slack_ulp=8):
    """Resolve every default.  ``options`` holds only the keywords actually passed."""
    opt = dict(SIGNATURE_DEFAULTS[cls])
    opt.update(options)
    res = Resolved()
    res.cls, res.options = cls, opt
    res.sign = -1 if cls == 'max' else 1
    res.offset = opt['offset']

    # --- ratio ---------------------------------------------------------------------------
    ratio = opt['step_ratio']
    if ratio is None:
        ratio = 2.0 if n == 1 else 1.6
    ratio = float(ratio)
    res.real_ratio = ratio
    spiral = cls == 'cstep' and str(opt['path'])[0].lower() != 'r' and opt['dtheta'] != 0
    if spiral:
        ratio = cmath.exp(1j * opt['dtheta']) * ratio
    if opt['use_exact_steps']:
        ratio = _exact(ratio)
    res.ratio, res.spiral = ratio, spiral

    # --- count ---------------------------------------------------------------------------
    given = opt['num_steps']
    if cls == 'cstep':
        if given is None:
            with mpmath.workprec(PREC):
                q = 16 / mpmath.log(mpmath.mpf(res.real_ratio))
                lo, frac = int(mpmath.floor(q)), float(q - mpmath.floor(q))
            if abs(frac - 0.5) < 1e-9:
                res.counts = (2 * lo + 1, 2 * (lo + 1) + 1)
            else:
                res.counts = (2 * (lo + (1 if frac > 0.5 else 0)) + 1,)
        else:
            res.counts = (int(given),)
    else:
        least = min_num_steps(method, n, order)
        if given is None:
            res.counts = (least + int(opt['num_extrap']),)
        elif opt['check_num_steps']:
            res.counts = (max(int(given), least),)
        else:
            res.counts = (int(given),)
    res.min_num_steps = min_num_steps(method, n, order)

    # --- base step B = base_step * step_nom(x) --------------------------------------------
    absx = _abs_array(x)
    base = opt['base_step']
    u = 2.0 ** -52
    if base is None:
        scale = opt['scale']
        if scale is None:
            scale = default_scale(method, n, order)
        with mpmath.workprec(PREC):
            b = float(mpmath.power(mpmath.mpf(EPS), mpmath.mpf(1.0 / scale)))
        base_lo = np.asarray(b * (1 - base_slack_ulp * u))
        base_hi = np.asarray(b * (1 + base_slack_ulp * u))
        res.scale = scale
    else:
        base_lo = base_hi = np.asarray(base, dtype=float)
        res.scale = None
    nom = opt['step_nom']
    if nom is None:
        flat = absx.ravel()
        pairs = [nominal_interval(float(a)) for a in flat]
        # "at least 1" is sharp; the logarithmic ends get a few ulp of slack; x == 0 is the point 1
        nom_lo = np.array([p[0] if p[0] == 1.0 else p[0] * (1 - nom_slack_ulp * u)
                           for p in pairs]).reshape(absx.shape)
        nom_hi = np.array([p[1] if p[0] == p[1] else p[1] * (1 + nom_slack_ulp * u)
                           for p in pairs]).reshape(absx.shape)
    else:
        nom_lo = nom_hi = np.full(absx.shape, float(nom))
    res.nominal_pinned = bool(np.all(nom_lo == nom_hi))
    b_lo, b_hi = base_lo * nom_lo, base_hi * nom_hi            # base_step > 0 assumed (>= 0)
    if opt['use_exact_steps']:
        b_lo, b_hi = _exact(b_lo), _exact(b_hi)
    res.b_lo, res.b_hi = np.asarray(b_lo, dtype=float), np.asarray(b_hi, dtype=float)
    res.shape = res.b_lo.shape
    res.pinned = bool(np.all(res.b_lo == res.b_hi))
    res.absx = np.broadcast_to(absx, res.shape) if absx.shape != res.shape else absx
    return res


def exact_power(ratio, exponent):
    """ratio**exponent to PREC bits (mpmath); principal branch for complex ratios."""
    with mpmath.workprec(PREC):
        if isinstance(ratio, complex):
            return +mpmath.power(mpmath.mpc(ratio.real, ratio.imag), mpmath.mpf(exponent))
        return +mpmath.power(mpmath.mpf(ratio), mpmath.mpf(exponent))


def model_steps(cls, options, x, method='forward', n=1, order=2, nominal='code'):
    """The list of steps the documentation describes, in plain double arithmetic.

    nominal='code': step_nom = log(e - 1 + |x|) clipped at 1 (what the library computes);
    nominal='doc' : step_nom = log(e + |x|) (what the docstrings say).  Zero steps are dropped."""
    res = resolve(cls, options, x, method, n, order, base_slack_ulp=0, nom_slack_ulp=0)
    opt = res.options
    base = opt['base_step']
    if base is None:
        base = EPS ** (1.0 / res.scale)
    base = np.asarray(base, dtype=float)
    if opt['step_nom'] is None:
        absx = _abs_array(x)
        shift = math.e - 1 if nominal == 'code' else math.e
        nom = np.log(shift + absx).clip(min=1)
    else:
        nom = np.full(np.shape(_abs_array(x)), float(opt['step_nom']))
    B = base * nom
    if opt['use_exact_steps']:
        B = _exact(B)
    out = []
    for k in res.exponents(res.counts[0]):
        step = B * res.ratio ** k
        if np.all(np.abs(step) > 0):
            out.append(step)
    return out
