"""atheris (libFuzzer) driver: coverage-guided exploration of a property's own strategy and predicate.

    python -m nverif.fuzz.driver C14 --runs 20000 --seed 3 --out stats.json --corpus <fresh dir>

libFuzzer's coverage feedback over the byte string that Hypothesis decodes into a case steers the
*same* generator and oracle as the Hypothesis tier into the branches of the instrumented
numdifftools code (Dea's table-shift / convergence paths).  A violation writes a replay file exactly
like the Hypothesis tier; the parent (engine.run_fuzz) reads the stats file.
"""
import argparse
import json
import os
import sys
import time


def main():
    ap = argparse.ArgumentParser()
    ap.add_argument('prop')
    ap.add_argument('--runs', type=int, default=10000)
    ap.add_argument('--seed', type=int, default=0)
    ap.add_argument('--out', required=True)
    ap.add_argument('--corpus', required=True)
    a = ap.parse_args()
    import atheris
    with atheris.instrument_imports(include=['numdifftools']):
        import numdifftools                      # noqa: F401
        import numdifftools.extrapolation        # noqa: F401
        import numdifftools.fornberg             # noqa: F401
        import numdifftools.limits               # noqa: F401
    from hypothesis import HealthCheck, given, settings
    from nverif import engine
    from nverif import findings as F
    prop = engine.load_prop(a.prop)
    findings = F.Findings.load()
    ctx = engine.Ctx(a.prop, 'thorough', a.seed, shard=99)
    state = dict(n=0, valid=0, t0=time.time())

    @settings(database=None, deadline=None, suppress_health_check=list(HealthCheck))
    @given(prop.strategy('thorough'))
    def test(case):
        state['valid'] += 1
        engine.run_case(prop, case, ctx, findings)

    fuzz_one = test.hypothesis.fuzz_one_input

    def dump(status, violation=None):
        res = dict(status=status, violation=violation, executions=state['n'], decoded=state['valid'],
                   wall_s=time.time() - state['t0'], ctx=ctx.dump())
        tmp = a.out + '.tmp'
        with open(tmp, 'w') as fh:
            json.dump(res, fh)
        os.replace(tmp, a.out)

    def one(data):
        state['n'] += 1
        try:
            fuzz_one(data)
        except engine.Violation:
            case, v, key = ctx.last_failure
            path = engine.write_replay(a.prop, case, v, key, a.seed, 'thorough')
            dump('violation', dict(replay=path, clause=v.clause, message=v.message + ' [atheris]',
                                   key=engine.jsonable(key)))
            os._exit(0)
        except BaseException as exc:       # harness error
            import traceback
            res = dict(status='error', error='%s: %s' % (type(exc).__name__, exc),
                       traceback=traceback.format_exc(), executions=state['n'], ctx=ctx.dump())
            with open(a.out, 'w') as fh:
                json.dump(res, fh)
            os._exit(0)
        if state['n'] % 500 == 0 or state['n'] >= a.runs:
            dump('ok')
        if state['n'] >= a.runs:
            os._exit(0)

    dump('ok')
    # Hypothesis decodes the byte string as its entropy source; short strings overrun and are
    # rejected, so start from a few long pseudo-random blobs (a pure function of the seed) and do
    # not let libFuzzer ramp the length up from a few bytes.
    import hashlib
    for i in range(8):
        blob = b''.join(hashlib.sha256(('%d-%d-%d' % (a.seed, i, j)).encode()).digest() for j in range(96))
        with open(os.path.join(a.corpus, 'seed%d' % i), 'wb') as fh:
            fh.write(blob)
    argv = [sys.argv[0], '-runs=%d' % (a.runs + 10), '-seed=%d' % (a.seed + 1), '-max_len=4096',
            '-len_control=0', '-print_final_stats=0', a.corpus]
    atheris.Setup(argv, one)
    atheris.Fuzz()


if __name__ == '__main__':
    main()
