"""Shared machinery: case execution, counters, sharding, evidence, replay, known findings.

Contract with a property module  nverif/props/cNN.py  (attribute ``PROP``, an instance of a
subclass of :class:`Prop`):

* ``strategy(tier)``  -> Hypothesis strategy producing a *JSON-serialisable* case (dict).
  Every random choice is a Hypothesis draw, so cases shrink and replay.
* ``enumerate(tier)`` -> iterable of deterministic cases (finite grids), optional.
* ``check(case, ctx)`` -> returns None if the property held on the case; raises
  :class:`Violation` otherwise.  Library calls whose *exception* would be a violation are
  wrapped in ``with ctx.lib(clause, what):``; any other exception is a harness error
  (exit code 2), never a violation.
* ``finding_key(case, violation)`` -> dict of attributes used to match known findings.
* ``finalize(merged, tier)`` -> optional list of Violation computed from pooled statistics.

A run is a pure function of (tree, VERIF_SEED, tier): shard k uses Hypothesis seed
VERIF_SEED*1000+k, database=None, derandomize=False, PYTHONHASHSEED=0.
"""
from __future__ import annotations

import hashlib
import json
import math
import os
import shutil
import subprocess
import sys
import time
import traceback
from collections import Counter

ROOT = os.path.dirname(os.path.dirname(os.path.abspath(__file__)))
EVIDENCE_DIR = os.environ.get('NVERIF_EVIDENCE_DIR') or os.path.join(ROOT, 'evidence')
REPLAY_DIR = os.environ.get('NVERIF_REPLAY_DIR') or os.path.join(ROOT, 'replays')
WORK_DIR = os.path.join(ROOT, '.work')
NSHARDS = int(os.environ.get('VERIF_SHARDS', '16'))
MAX_SAMPLES = 4          # per shard
EXIT_OK, EXIT_VIOLATION, EXIT_HARNESS = 0, 1, 2


class Violation(Exception):
    """The property does not hold on the case."""

    def __init__(self, clause, message, **details):
        super().__init__('%s: %s' % (clause, message))
        self.clause = clause
        self.message = message
        self.details = details


class Skip(Exception):
    """The case does not satisfy a precondition of the property (counted, not asserted)."""

    def __init__(self, reason):
        super().__init__(reason)
        self.reason = reason


def jsonable(obj):
    """Convert numpy / mpmath / complex values into plain JSON values (exactly for floats)."""
    import numpy as np
    if isinstance(obj, dict):
        return {str(k): jsonable(v) for k, v in obj.items()}
    if isinstance(obj, (list, tuple)):
        return [jsonable(v) for v in obj]
    if isinstance(obj, (bool, np.bool_)):
        return bool(obj)
    if isinstance(obj, (int, np.integer)):
        return int(obj)
    if isinstance(obj, (float, np.floating)):
        return float(obj)
    if isinstance(obj, (complex, np.complexfloating)):
        return {'re': float(obj.real), 'im': float(obj.imag)}
    if isinstance(obj, np.ndarray):
        return jsonable(obj.tolist())
    if obj is None or isinstance(obj, str):
        return obj
    try:
        import fractions
        if isinstance(obj, fractions.Fraction):
            return float(obj)
    except Exception:       # pragma: no cover
        pass
    return repr(obj)


def digest(obj):
    s = json.dumps(jsonable(obj), sort_keys=True)
    return hashlib.sha1(s.encode()).hexdigest()[:16]


class LibCall(object):
    """Context manager: an exception escaping the block is a violation of ``clause``."""

    def __init__(self, clause, what, allow=()):
        self.clause, self.what, self.allow = clause, what, allow

    def __enter__(self):
        return self

    def __exit__(self, etype, exc, tb):
        if etype is None:
            return False
        if issubclass(etype, (Violation, Skip, KeyboardInterrupt, SystemExit, MemoryError)):
            return False
        if self.allow and issubclass(etype, self.allow):
            return False
        frames = traceback.extract_tb(tb)
        where = ''
        for fr in reversed(frames):
            if 'numdifftools' in fr.filename:
                where = '%s:%d' % (os.path.basename(fr.filename), fr.lineno)
                break
        raise Violation(self.clause, '%s raised %s: %s' % (self.what, etype.__name__, exc),
                        exception=etype.__name__, where=where) from exc


class Ctx(object):
    """Per-shard counters.  Counting stops once a failure was seen (shrinking replays)."""

    def __init__(self, prop_id, tier, seed, shard=0):
        self.prop_id, self.tier, self.seed, self.shard = prop_id, tier, seed, shard
        self.evaluations = 0
        self.classes = Counter()
        self.skips = Counter()
        self.excluded = Counter()
        self.nontrivial = set()
        self.samples = []
        self.auto_samples = []  # cases kept by the engine when the property itself samples nothing
        self.maxima = {}       # name -> (value, case-summary)
        self.values = {}       # name -> list of floats (pooled statistics)
        self.frozen = False
        self.last_failure = None
        self.replaying = False

    # --- counters -----------------------------------------------------------------
    def count(self, cls, k=1):
        if not self.frozen:
            self.classes[str(cls)] += k

    def skip(self, reason):
        raise Skip(reason)

    def nontriv(self, key):
        if not self.frozen:
            self.nontrivial.add(key if isinstance(key, str) and len(key) == 16 else digest(key))

    def sample(self, obj, force=False):
        if not self.frozen and (force or len(self.samples) < MAX_SAMPLES):
            self.samples.append(jsonable(obj))

    def track(self, name, value, summary=None):
        """Remember the largest value of a ratio (worst case seen), with the case that gave it."""
        if self.frozen:
            return
        try:
            value = float(value)
        except Exception:
            return
        if math.isnan(value):
            return
        cur = self.maxima.get(name)
        if cur is None or value > cur[0]:
            self.maxima[name] = (value, jsonable(summary))

    def record(self, name, value):
        if not self.frozen:
            self.values.setdefault(name, []).append(float(value))

    def lib(self, clause, what, allow=()):
        return LibCall(clause, what, allow)

    def dump(self):
        return dict(evaluations=self.evaluations, classes=dict(self.classes),
                    skips=dict(self.skips), excluded=dict(self.excluded),
                    nontrivial=sorted(self.nontrivial), samples=self.samples or self.auto_samples,
                    maxima={k: list(v) for k, v in self.maxima.items()},
                    values=self.values)


class Prop(object):
    """Base class of a property check."""
    id = 'C00'
    title = ''
    rule = ''                      # how cases are generated and what makes one non-trivial
    assumptions = ()
    constants = {}                 # tolerances in force (reported in the evidence)
    examples = {'quick': 200, 'thorough': 2000}      # Hypothesis examples *per shard*
    shrink = {'quick': True, 'thorough': True}
    shards = {'quick': NSHARDS, 'thorough': NSHARDS}
    timeout = {'quick': 900, 'thorough': 6 * 3600}   # safety net only -> exit 2
    fuzz = {}                      # tier -> number of atheris executions (secondary engine)

    def strategy(self, tier):
        return None

    def enumerate(self, tier):
        return ()

    def check(self, case, ctx):
        raise NotImplementedError

    def finding_key(self, case, violation):
        return {'clause': violation.clause}

    def finalize(self, merged, tier):
        return []

    def summary(self, case):
        return case


def load_prop(prop_id):
    import importlib
    mod = importlib.import_module('nverif.props.%s' % prop_id.lower())
    return mod.PROP


# ---------------------------------------------------------------------------------------
# running one case
# ---------------------------------------------------------------------------------------

def run_case(prop, case, ctx, findings):
    """Returns 'ok' | 'skip' | 'known'; raises Violation for a new violation."""
    try:
        prop.check(case, ctx)
    except Skip as s:
        if not ctx.frozen:
            ctx.skips[s.reason] += 1
        return 'skip'
    except Violation as v:
        key = prop.finding_key(case, v)
        entry = findings.match(prop.id, key) if findings is not None else None
        if entry is not None:
            if not ctx.frozen:
                ctx.excluded[entry['id']] += 1
            return 'known'
        ctx.last_failure = (case, v, key)
        ctx.frozen = True
        raise
    if not ctx.frozen:
        ctx.evaluations += 1
        if not ctx.samples and len(ctx.auto_samples) < 2:
            ctx.auto_samples.append(jsonable(prop.summary(case)))
    return 'ok'


def write_replay(prop_id, case, violation, key, seed, tier):
    d = os.path.join(REPLAY_DIR, prop_id)
    os.makedirs(d, exist_ok=True)
    body = dict(property=prop_id, case=jsonable(case), clause=violation.clause,
                message=violation.message, details=jsonable(violation.details),
                finding_key=jsonable(key), seed=seed, tier=tier)
    name = digest(body['case']) + '.json'
    path = os.path.join(d, name)
    with open(path, 'w') as fh:
        json.dump(body, fh, indent=1, sort_keys=True)
    return path


def shard_main(prop_id, tier, seed, shard, nshards, out_path):
    """Entry point of one shard process."""
    from nverif import findings as F
    prop = load_prop(prop_id)
    findings = F.Findings.load()
    ctx = Ctx(prop_id, tier, seed, shard)
    result = dict(shard=shard, status='ok', violation=None)
    t0 = time.time()
    try:
        # deterministic part, split round-robin across the shards
        for i, case in enumerate(prop.enumerate(tier)):
            if i % nshards != shard:
                continue
            run_case(prop, case, ctx, findings)
        strat = prop.strategy(tier)
        n_examples = int(prop.examples.get(tier, 0))
        if strat is not None and n_examples > 0:
            import hypothesis
            from hypothesis import HealthCheck, Phase, given, settings
            phases = [Phase.generate, Phase.target]
            if prop.shrink.get(tier, True):
                phases.append(Phase.shrink)

            @hypothesis.seed(seed * 1000 + shard)
            @settings(max_examples=n_examples, database=None, deadline=None,
                      derandomize=False, report_multiple_bugs=False, phases=phases,
                      suppress_health_check=list(HealthCheck), print_blob=False)
            @given(strat)
            def test(case):
                run_case(prop, case, ctx, findings)

            test()
    except Violation as v:
        case, v2, key = ctx.last_failure
        path = write_replay(prop_id, case, v2, key, seed, tier)
        result.update(status='violation',
                      violation=dict(replay=path, clause=v2.clause, message=v2.message,
                                     key=jsonable(key)))
    except BaseException as exc:      # harness error
        flaky = type(exc).__name__ in ('Flaky', 'FlakyFailure', 'FlakyReplay') and ctx.last_failure
        if flaky:
            # a violation that did not reproduce on Hypothesis' replay (schedule dependent, C09
            # threads): it was observed against the real code, so it is reported, un-shrunk
            case, v2, key = ctx.last_failure
            path = write_replay(prop_id, case, v2, key, seed, tier)
            result.update(status='violation',
                          violation=dict(replay=path, clause=v2.clause,
                                         message=v2.message + ' [did not reproduce on replay: '
                                         'schedule-dependent]', key=jsonable(key)))
        else:
            result.update(status='error', error='%s: %s' % (type(exc).__name__, exc),
                          traceback=traceback.format_exc())
    result['ctx'] = ctx.dump()
    result['wall_s'] = time.time() - t0
    with open(out_path, 'w') as fh:
        json.dump(result, fh)
    return result


# ---------------------------------------------------------------------------------------
# parent: spawn shards, merge, evidence
# ---------------------------------------------------------------------------------------

def child_env():
    env = dict(os.environ)
    repo_src = os.environ.get('NVERIF_REPO_SRC', '/repo/src')
    deps = os.path.join(ROOT, '.deps')
    env['PYTHONPATH'] = os.pathsep.join([repo_src, ROOT, deps])
    env['PYTHONHASHSEED'] = '0'
    for k in ('OMP_NUM_THREADS', 'OPENBLAS_NUM_THREADS', 'MKL_NUM_THREADS'):
        env[k] = '1'
    env['PBROD_NUMDIFFTOOLS_VERIF'] = '1'
    return env


def merge(results):
    m = dict(evaluations=0, classes=Counter(), skips=Counter(), excluded=Counter(),
             nontrivial=set(), samples=[], maxima={}, values={})
    for r in results:
        c = r['ctx']
        m['evaluations'] += c['evaluations']
        m['classes'].update(c['classes'])
        m['skips'].update(c['skips'])
        m['excluded'].update(c['excluded'])
        m['nontrivial'].update(c['nontrivial'])
        m['samples'].extend(c['samples'][:2])
        for k, (v, s) in c['maxima'].items():
            if k not in m['maxima'] or v > m['maxima'][k][0]:
                m['maxima'][k] = (v, s)
        for k, vals in c['values'].items():
            m['values'].setdefault(k, []).extend(vals)
    return m


def quantiles(vals, qs=(0.5, 0.9, 0.99, 1.0)):
    if not vals:
        return {}
    s = sorted(vals)
    return {('q%g' % (q * 100)): s[min(len(s) - 1, int(q * (len(s) - 1) + 0.5))] for q in qs}


def write_evidence(prop, tier, seed, merged, wall, n_violations, known_lines, extra=None):
    os.makedirs(EVIDENCE_DIR, exist_ok=True)
    cov = dict(
        evaluations=int(merged['evaluations']),
        distinct_nontrivial=len(merged['nontrivial']),
        rule=prop.rule,
        samples=merged['samples'][:10],
        classes=dict(sorted(merged['classes'].items())),
        skipped_precondition=dict(merged['skips']),
        excluded_known=dict(merged['excluded']),
        worst_ratios={k: {'value': v, 'case': s} for k, (v, s) in sorted(merged['maxima'].items())},
        statistics={k: dict(n=len(v), **quantiles(v)) for k, v in sorted(merged['values'].items())},
        constants=jsonable(prop.constants),
        known_findings_reported=known_lines,
        exhaustive=False,
    )
    if extra:
        cov.update(extra)
    ev = dict(property_id=prop.id, tier=tier, seed=int(seed), level='exploration', coverage=cov,
              assumptions=list(prop.assumptions), wall_s=round(wall, 2), violations=int(n_violations))
    path = os.path.join(EVIDENCE_DIR, '%s.json' % prop.id)
    tmp = path + '.tmp'
    with open(tmp, 'w') as fh:
        json.dump(ev, fh, indent=1, sort_keys=True)
    os.replace(tmp, path)
    return path


def relpath(p):
    try:
        return os.path.relpath(p, ROOT)
    except Exception:
        return p


def run_property(prop_id, tier, seed):
    from nverif import findings as F
    t0 = time.time()
    prop = load_prop(prop_id)
    findings = F.Findings.load()
    nshards = int(prop.shards.get(tier, NSHARDS))
    work = os.path.join(WORK_DIR, '%s-%s-%d' % (prop_id, tier, os.getpid()))
    os.makedirs(work, exist_ok=True)
    env = child_env()
    known_lines, violations = [], []
    try:
        # 1. pinned replays of known / fixed findings (in a child, so the tree is imported fresh)
        pinned = findings.pinned(prop_id)
        if pinned:
            out = os.path.join(work, 'pinned.json')
            p = subprocess.run([sys.executable, '-m', 'nverif.run', '--pinned', prop_id, '--out', out],
                               env=env, cwd=ROOT, capture_output=True, text=True)
            if p.returncode != 0 or not os.path.exists(out):
                sys.stderr.write(p.stdout + p.stderr)
                print('HARNESS-ERROR property=%s pinned replays failed to run' % prop_id)
                return EXIT_HARNESS
            for rec in json.load(open(out)):
                if rec['failed'] and rec['status'] == 'known' and not rec.get('matched', True):
                    violations.append(dict(replay=rec['replay'], clause='pinned',
                                           message='pinned case of known finding %s now fails differently: %s'
                                           % (rec['id'], rec['message'])))
                elif rec['failed'] and rec['status'] == 'known':
                    line = 'KNOWN-FINDING: property=%s %s: %s' % (prop_id, rec['id'], rec['what'])
                    print(line)
                    known_lines.append(line)
                elif rec['failed'] and rec['status'] == 'fixed':
                    violations.append(dict(replay=rec['replay'], clause='regression',
                                           message='pinned replay of fixed finding %s fails: %s' % (rec['id'], rec['message'])))
        # 2. shards
        procs = []
        for k in range(nshards):
            out = os.path.join(work, 'shard%d.json' % k)
            cmd = [sys.executable, '-m', 'nverif.run', '--shard', str(k), '--nshards', str(nshards),
                   '--tier', tier, '--seed', str(seed), '--out', out, prop_id]
            log = open(os.path.join(work, 'shard%d.log' % k), 'w')
            procs.append((k, out, log, subprocess.Popen(cmd, env=env, cwd=ROOT, stdout=log, stderr=log)))
        deadline = t0 + prop.timeout.get(tier, 900)
        results, harness = [], []
        for k, out, log, p in procs:
            try:
                p.wait(timeout=max(1.0, deadline - time.time()))
            except subprocess.TimeoutExpired:
                p.kill()
                harness.append('shard %d hit the safety timeout (inconclusive)' % k)
                continue
            finally:
                log.close()
            if not os.path.exists(out):
                harness.append('shard %d died (exit %s): %s' % (
                    k, p.returncode, open(os.path.join(work, 'shard%d.log' % k)).read()[-2000:]))
                continue
            r = json.load(open(out))
            results.append(r)
            if r['status'] == 'error':
                harness.append('shard %d: %s\n%s' % (k, r['error'], r.get('traceback', '')))
            elif r['status'] == 'violation':
                violations.append(r['violation'])
        merged = merge(results)
        fuzz_extra = None
        n_fuzz = int(getattr(prop, 'fuzz', {}).get(tier, 0) or 0)
        if n_fuzz and not harness and not violations:
            fr = run_fuzz(prop_id, n_fuzz, seed, work, env, max(60.0, deadline - time.time()))
            if fr.get('status') == 'error':
                harness.append('atheris driver: %s\n%s' % (fr.get('error'), fr.get('traceback', '')))
            else:
                if fr.get('status') == 'violation':
                    violations.append(fr['violation'])
                results.append(dict(ctx=fr['ctx']))
                merged = merge(results)
                fuzz_extra = dict(atheris=dict(executions=fr.get('executions', 0),
                                               decoded_cases=fr.get('decoded', 0),
                                               evaluations=fr['ctx']['evaluations'],
                                               wall_s=round(fr.get('wall_s', 0.0), 1),
                                               note='libFuzzer byte strings decoded by '
                                                    'hypothesis.fuzz_one_input into the same strategy; '
                                                    'same predicate; numdifftools instrumented'))
        if not harness:
            for v in prop.finalize(merged, tier) or []:
                key = prop.finding_key(None, v)
                if findings.match(prop_id, key) is not None:
                    merged['excluded'][findings.match(prop_id, key)['id']] += 1
                    continue
                path = write_replay(prop_id, dict(statistic=True, seed=seed, tier=tier,
                                                  details=jsonable(v.details)), v, key, seed, tier)
                violations.append(dict(replay=path, clause=v.clause, message=v.message))
        wall = time.time() - t0
        if results:
            write_evidence(prop, tier, seed, merged, wall, len(violations), known_lines, fuzz_extra)
        seen = set()
        for v in violations:
            if v['replay'] in seen:
                continue
            seen.add(v['replay'])
            print('VIOLATION property=%s replay=%s' % (prop_id, relpath(v['replay'])))
            print('  %s: %s' % (v['clause'], v['message']))
        for h in harness:
            print('HARNESS-ERROR property=%s %s' % (prop_id, h))
        print('%s %s seed=%s: %d evaluations, %d distinct non-trivial, %d known-excluded, '
              '%d skipped, %.1fs' % (prop_id, tier, seed, merged['evaluations'],
                                     len(merged['nontrivial']), sum(merged['excluded'].values()),
                                     sum(merged['skips'].values()), wall))
        if violations:
            return EXIT_VIOLATION
        if harness:
            return EXIT_HARNESS
        if len(merged['nontrivial']) < 2 or merged['evaluations'] < 1:
            print('HARNESS-ERROR property=%s generator starved (no non-trivial cases)' % prop_id)
            return EXIT_HARNESS
        return EXIT_OK
    finally:
        shutil.rmtree(work, ignore_errors=True)


def run_fuzz(prop_id, runs, seed, work, env, timeout):
    """Run the atheris driver in a child process with a fresh corpus directory."""
    out = os.path.join(work, 'fuzz.json')
    corpus = os.path.join(work, 'corpus')
    os.makedirs(corpus, exist_ok=True)
    cmd = [sys.executable, '-m', 'nverif.fuzz.driver', prop_id, '--runs', str(runs), '--seed', str(seed),
           '--out', out, '--corpus', corpus]
    log = open(os.path.join(work, 'fuzz.log'), 'w')
    try:
        p = subprocess.Popen(cmd, env=env, cwd=ROOT, stdout=log, stderr=log)
        try:
            p.wait(timeout=timeout)
        except subprocess.TimeoutExpired:
            p.kill()
    finally:
        log.close()
    if not os.path.exists(out):
        return dict(status='error', error='atheris driver produced no output: %s'
                    % open(os.path.join(work, 'fuzz.log')).read()[-1500:])
    return json.load(open(out))


def replay_file(path):
    """Re-evaluate a replay JSON through the property's predicate, Hypothesis out of the loop."""
    body = json.load(open(path))
    prop = load_prop(body['property'])
    if isinstance(body['case'], dict) and body['case'].get('statistic'):
        print('replay of a pooled statistic: re-run tier %s with VERIF_SEED=%s' % (
            body['case']['tier'], body['case']['seed']))
        return EXIT_OK
    ctx = Ctx(prop.id, 'replay', 0)
    ctx.replaying = True
    try:
        prop.check(body['case'], ctx)
    except Skip as s:
        print('replay skipped by precondition: %s' % s.reason)
        return EXIT_OK
    except Violation as v:
        print('VIOLATION property=%s replay=%s' % (prop.id, relpath(path)))
        print('  %s: %s' % (v.clause, v.message))
        print('  details: %s' % json.dumps(jsonable(v.details), sort_keys=True)[:2000])
        return EXIT_VIOLATION
    print('replay passed: property %s holds on %s' % (prop.id, relpath(path)))
    return EXIT_OK


def pinned_main(prop_id, out_path):
    from nverif import findings as F
    findings = F.Findings.load()
    prop = load_prop(prop_id)
    recs = []
    for entry in findings.pinned(prop_id):
        path = os.path.join(ROOT, entry['replay'])
        body = json.load(open(path))
        ctx = Ctx(prop.id, 'replay', 0)
        ctx.replaying = True
        failed, matched, msg = False, True, ''
        try:
            prop.check(body['case'], ctx)
        except Skip as s:
            msg = 'skipped: ' + s.reason
        except Violation as v:
            failed, msg = True, '%s: %s' % (v.clause, v.message)
            # a known entry only covers the failure it describes: the key of what fails now must match it
            if entry['status'] == 'known':
                matched = F.Findings([entry]).match(prop_id, prop.finding_key(body['case'], v)) is not None
        recs.append(dict(id=entry['id'], status=entry['status'], what=entry.get('what', ''),
                         replay=entry['replay'], failed=failed, matched=matched, message=msg))
    with open(out_path, 'w') as fh:
        json.dump(recs, fh)
