"""CLI.

  python -m nverif.run C07 --tier quick            run a property check (16 shards)
  python -m nverif.run --replay replays/C07/x.json re-evaluate a saved counter-example
"""
import argparse
import os
import sys


def main(argv=None):
    ap = argparse.ArgumentParser()
    ap.add_argument('prop', nargs='?')
    ap.add_argument('--tier', default=os.environ.get('VERIF_TIER', 'quick'),
                    choices=['quick', 'thorough'])
    ap.add_argument('--seed', type=int, default=None)
    ap.add_argument('--replay')
    ap.add_argument('--shard', type=int)
    ap.add_argument('--nshards', type=int, default=16)
    ap.add_argument('--pinned')
    ap.add_argument('--out')
    a = ap.parse_args(argv)
    seed = a.seed if a.seed is not None else int(os.environ.get('VERIF_SEED', '0') or 0)
    from nverif import engine
    if a.replay:
        return engine.replay_file(a.replay)
    if a.pinned:
        engine.pinned_main(a.pinned, a.out)
        return 0
    if a.shard is not None:
        engine.shard_main(a.prop, a.tier, seed, a.shard, a.nshards, a.out)
        return 0
    return engine.run_property(a.prop, a.tier, seed)


if __name__ == '__main__':
    try:
        code = main()
    except SystemExit:
        raise
    except BaseException:
        import traceback
        traceback.print_exc()
        print('HARNESS-ERROR uncaught exception in the runner')
        code = 2
    sys.exit(code)
