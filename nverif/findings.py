"""known_findings.json: read-only at run time.

Each entry:  {"id": "F10-C02", "status": "known" | "fixed", "property": "C02",
              "what": "...", "match": {attr: spec, ...}, "replay": "replays/C02/F10.json",
              "commit": "<sha, for fixed>"}

``match`` is compared with the dict returned by Prop.finding_key(case, violation); every
attribute named in ``match`` must agree:
   scalar            -> equal (or contained in the key's list value)
   list              -> key value (scalar) is one of them / (list) intersects
   {"min": a}/{"max": b} -> numeric bounds,   {"subset_of": [...]} -> key list is a subset
Only status == "known" entries suppress anything; "fixed" entries are regression replays.
"""
import json
import os

from nverif.engine import ROOT

PATH = os.environ.get('NVERIF_FINDINGS') or os.path.join(ROOT, 'known_findings.json')    # override: development only


def _match_one(spec, kv):
    if isinstance(spec, dict):
        if 'subset_of' in spec:
            vals = kv if isinstance(kv, (list, tuple, set)) else [kv]
            return set(vals) <= set(spec['subset_of'])
        ok = True
        if 'min' in spec:
            ok = ok and kv is not None and kv >= spec['min']
        if 'max' in spec:
            ok = ok and kv is not None and kv <= spec['max']
        return ok
    if isinstance(spec, list):
        if isinstance(kv, (list, tuple, set)):
            return bool(set(kv) & set(spec))
        return kv in spec
    if isinstance(kv, (list, tuple, set)):
        return spec in kv
    return spec == kv


class Findings(object):
    def __init__(self, entries):
        self.entries = entries

    @classmethod
    def load(cls, path=PATH):
        if not os.path.exists(path):
            return cls([])
        with open(path) as fh:
            return cls(json.load(fh)['findings'])

    def match(self, prop_id, key):
        for e in self.entries:
            if e.get('status') != 'known' or e.get('property') != prop_id:
                continue
            if all(_match_one(spec, key.get(a)) for a, spec in e.get('match', {}).items()):
                return e
        return None

    def pinned(self, prop_id):
        return [e for e in self.entries if e.get('property') == prop_id and e.get('replay')]
