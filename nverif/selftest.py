"""Sensitivity suite: apply each mutant to a scratch copy of /repo/src, run the quick check of the
properties it targets, expect exit 1 (killed).  Development tool, not a registered check.

  python -m nverif.selftest [--only m01,m02] [--props C01,C06] [--tier quick] [--jobs 2]
Writes mutants/selftest_result.json.
"""
import argparse
import json
import os
import shutil
import subprocess
import sys
import tempfile
import time

ROOT = os.path.dirname(os.path.dirname(os.path.abspath(__file__)))
REPO_SRC = '/repo/src'


def load():
    with open(os.path.join(ROOT, 'mutants', 'mutants.json')) as fh:
        return json.load(fh)['mutants']


def apply(mut, dest_src):
    path = os.path.join(dest_src, 'numdifftools', mut['file'])
    with open(path, newline='') as fh:
        s = fh.read()
    edits = mut.get('edits') or [dict(old=mut['old'], new=mut['new'])]
    for e in edits:
        old = e['old']
        if s.count(old) != 1:
            old2 = old.replace('\n', '\r\n')
            if s.count(old2) == 1:
                old, e = old2, dict(e, new=e['new'].replace('\n', '\r\n'))
            else:
                raise SystemExit('mutant %s: pattern occurs %d times in %s' % (mut['id'], s.count(old), mut['file']))
        s = s.replace(old, e['new'])
    with open(path, 'w', newline='') as fh:
        fh.write(s)


def run_one(mut, prop, tier, seed):
    tmp = tempfile.mkdtemp(prefix='ndt-mut-%s-' % mut['id'])
    try:
        dest = os.path.join(tmp, 'src')
        shutil.copytree(REPO_SRC, dest, ignore=shutil.ignore_patterns('__pycache__', 'tests'))
        apply(mut, dest)
        env = dict(os.environ, NVERIF_REPO_SRC=dest, VERIF_SEED=str(seed), NVERIF_SELFTEST='1',
                   NVERIF_EVIDENCE_DIR=os.path.join(tmp, 'evidence'), NVERIF_REPLAY_DIR=os.path.join(tmp, 'replays'))
        t0 = time.time()
        p = subprocess.run([os.path.join(ROOT, 'check'), prop, tier], env=env, cwd=ROOT,
                           capture_output=True, text=True)
        lines = [l for l in p.stdout.splitlines() if l.startswith('VIOLATION') or l.startswith('  ')][:2]
        return dict(mutant=mut['id'], prop=prop, exit=p.returncode, killed=p.returncode == 1,
                    wall_s=round(time.time() - t0, 1), first=' | '.join(lines)[:300])
    finally:
        shutil.rmtree(tmp, ignore_errors=True)


def main():
    ap = argparse.ArgumentParser()
    ap.add_argument('--only')
    ap.add_argument('--props')
    ap.add_argument('--tier', default='quick')
    ap.add_argument('--seed', type=int, default=0)
    a = ap.parse_args()
    muts = load()
    only = set(a.only.split(',')) if a.only else None
    props = set(a.props.split(',')) if a.props else None
    results = []
    for m in muts:
        if only and m['id'] not in only:
            continue
        for prop in m['props']:
            if props and prop not in props:
                continue
            r = run_one(m, prop, a.tier, a.seed)
            results.append(r)
            print('%-5s %-4s %s  %5.1fs  %s' % (r['mutant'], r['prop'], 'KILLED  ' if r['killed'] else
                                                 'SURVIVED(exit %d)' % r['exit'], r['wall_s'], r['first']))
            sys.stdout.flush()
    out = os.path.join(ROOT, 'mutants', 'selftest_result.json')
    prev = {}
    if os.path.exists(out):
        prev = {(r['mutant'], r['prop']): r for r in json.load(open(out))['results']}
    for r in results:
        prev[(r['mutant'], r['prop'])] = r
    with open(out, 'w') as fh:
        json.dump(dict(results=sorted(prev.values(), key=lambda r: (r['mutant'], r['prop']))), fh, indent=1)
    return 0


if __name__ == '__main__':
    sys.exit(main())
