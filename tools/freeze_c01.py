"""Freeze the C01 tolerance table from calibration runs (NVERIF_CALIBRATE=1 ./check C01 thorough).

tol[method|n|cfg] = 10**ceil(log10(100 * max observed err/U)), at least 1e3; cells that would need
more than 1e6 get null (weak: no envelope asserted).  multicomplex n=2 (whose maxima on the
unchanged tree are the known findings F9/F18) inherits the multicomplex n=1 value.
"""
import collections, glob, json, math, os, sys
ROOT = os.path.dirname(os.path.dirname(os.path.abspath(__file__)))
files = sorted(glob.glob(os.path.join(ROOT, 'calibration', 'c01_seed*.json')))
worst = collections.defaultdict(float)
count = collections.Counter()
for f in files:
    c = json.load(open(f))['coverage']
    for k, v in c['worst_ratios'].items():
        if k.startswith('err/U|'):
            worst[k[6:]] = max(worst[k[6:]], v['value'])
    for k, v in c['classes'].items():
        if k.startswith('cell|'):
            count[k[5:]] += v
table = {}
for key in sorted(worst):
    m, n, cfg = key.split('|')
    if m == 'multicomplex' and n == '2':
        continue
    need = 100.0 * max(worst[key], 1e-300)
    tol = max(1e3, 10.0 ** math.ceil(math.log10(need)))
    table[key] = tol if tol <= 1e6 else None
for cfg in ('default', 'user'):
    table['multicomplex|2|%s' % cfg] = table.get('multicomplex|1|%s' % cfg)
p = os.path.join(ROOT, 'nverif', 'constants.json')
d = json.load(open(p)) if os.path.exists(p) else {}
d['C01_tol'] = table
d['C01_tol_provenance'] = dict(files=[os.path.basename(f) for f in files], cases_per_cell_min=min(count.values()),
                               rule='10**ceil(log10(100*max err/U)), >= 1e3, null above 1e6',
                               worst_observed={k: worst[k] for k in sorted(worst)})
json.dump(d, open(p, 'w'), indent=1, sort_keys=True)
print(len(table), 'cells;', sum(1 for v in table.values() if v is None), 'weak')
for k in sorted(table):
    print(k, table[k], '(max %.3g, n=%d)' % (worst.get(k, float('nan')), count.get(k, 0)))
