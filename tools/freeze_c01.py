"""Freeze the C01 tolerance table from calibration runs (NVERIF_CALIBRATE=1 ./check C01 thorough).

tol[method|n|cfg] = 10**ceil(log10(100 * max observed err/U)), at least 1e3; cells that would need
more than 1e6 get null (weak: no envelope asserted).  The classes default+illcond / default+range / user+... get no entry (weak).
"""
import collections, glob, json, math, os, sys
ROOT = os.path.dirname(os.path.dirname(os.path.abspath(__file__)))
files = sorted(glob.glob(os.path.join(ROOT, 'calibration', 'c01_seed*.json')))
worst = collections.defaultdict(float)
count = collections.Counter()
# multicomplex cells: only runs made after the F22 repair with the known finding classes
# (F9, F11, F18, inverse functions at tiny arguments) excluded from the maxima
MC_FILES = ('c01_seed61.json',)
for f in files:
    c = json.load(open(f))['coverage']
    for k, v in c['worst_ratios'].items():
        if k.startswith('err/U|'):
            if k.startswith('err/U|multicomplex') and os.path.basename(f) not in MC_FILES:
                continue
            worst[k[6:]] = max(worst[k[6:]], v['value'])
    for k, v in c['classes'].items():
        if k.startswith('cell|'):
            count[k[5:]] += v
table = {}
for key in sorted(worst):
    m, n, cfg = key.split('|')
    if '+' in cfg:
        continue            # ill-conditioned / extreme-range classes stay weak
    need = 100.0 * max(worst[key], 1e-300)
    tol = max(1e3, 10.0 ** math.ceil(math.log10(need)))
    table[key] = tol if tol <= 1e6 else None
p = os.path.join(ROOT, 'nverif', 'constants.json')
d = json.load(open(p)) if os.path.exists(p) else {}
d['C01_tol'] = table
d['C01_tol_provenance'] = dict(files=[os.path.basename(f) for f in files], cases_per_cell_min=min(count.values()),
                               rule='10**ceil(log10(100*max err/U)), >= 1e3, null above 1e6',
                               worst_observed={k: worst[k] for k in sorted(worst)})
json.dump(d, open(p, 'w'), indent=1, sort_keys=True)
print(len(table), 'cells;', sum(1 for v in table.values() if v is None), 'weak')
for k in sorted(table):
    print(k, table[k], '(max %.3g, n=%d)' % (worst.get(k, float('nan')), count.get(k, 0)))
