"""Find a pinned replay for a *known* finding that has none (development tool).

  python tools/pin_known.py <ENTRY-ID> [--tier quick] [--seeds 0,1,2] [--write]
Runs the entry's check with a copy of known_findings.json that lacks the entry (NVERIF_FINDINGS),
so that the cases it would step over are reported; the first replay whose finding key matches the
entry is copied to pinned/<PROP>/<ENTRY-ID>.json and, with --write, recorded in known_findings.json.
"""
import argparse, glob, json, os, shutil, subprocess, sys, tempfile

VERIF = os.path.dirname(os.path.dirname(os.path.abspath(__file__)))
sys.path.insert(0, VERIF)


def main():
    ap = argparse.ArgumentParser()
    ap.add_argument('entry')
    ap.add_argument('--tier', default='quick')
    ap.add_argument('--seeds', default='0,1,2,3')
    ap.add_argument('--write', action='store_true')
    a = ap.parse_args()
    from nverif.findings import Findings
    path = os.path.join(VERIF, 'known_findings.json')
    doc = json.load(open(path))
    entry = [e for e in doc['findings'] if e['id'] == a.entry][0]
    prop = entry['property']
    tmp = tempfile.mkdtemp(prefix='ndt-pin-')
    try:
        kf = os.path.join(tmp, 'kf.json')
        json.dump(dict(doc, findings=[e for e in doc['findings'] if e['id'] != a.entry]), open(kf, 'w'))
        only = Findings([entry])
        for seed in a.seeds.split(','):
            rep = os.path.join(tmp, 'replays%s' % seed)
            env = dict(os.environ, NVERIF_FINDINGS=kf, VERIF_SEED=seed, NVERIF_REPLAY_DIR=rep,
                       NVERIF_EVIDENCE_DIR=os.path.join(tmp, 'evidence'))
            p = subprocess.run([os.path.join(VERIF, 'check'), prop, a.tier], env=env, cwd=VERIF,
                               capture_output=True, text=True)
            print('seed', seed, 'exit', p.returncode, p.stdout.strip().splitlines()[-1][:160] if p.stdout.strip() else '')
            for f in sorted(glob.glob(os.path.join(rep, prop, '*.json'))):
                b = json.load(open(f))
                ok = only.match(prop, b.get('finding_key', {})) is not None
                print(' %s %s %s' % ('*' if ok else ' ', b['clause'], b['message'][:200]))
                if ok:
                    rel = os.path.join('pinned', prop, '%s.json' % a.entry)
                    os.makedirs(os.path.join(VERIF, 'pinned', prop), exist_ok=True)
                    shutil.copy(f, os.path.join(VERIF, rel))
                    print('pinned ->', rel)
                    if a.write:
                        entry['replay'] = rel
                        with open(path, 'w') as fh:
                            json.dump(doc, fh, indent=1)
                            fh.write('\n')
                    return 0
        print('no matching violation found')
        return 1
    finally:
        shutil.rmtree(tmp, ignore_errors=True)


if __name__ == '__main__':
    sys.exit(main())
