"""Compare a junit xml with BASELINE.json stable_pass list (development helper)."""
import json, sys, xml.etree.ElementTree as ET
base = set(json.load(open('/root/.vp/BASELINE.json'))['stable_pass'])
t = ET.parse(sys.argv[1])
passed = set()
for tc in t.iter('testcase'):
    bad = any(c.tag in ('failure', 'error', 'skipped') for c in tc)
    name = '%s::%s' % (tc.get('classname'), tc.get('name'))
    if not bad:
        passed.add(name)
missing = sorted(b for b in base if b not in passed)
print('passed', len(passed), 'baseline', len(base), 'missing', len(missing))
for m in missing[:20]:
    print('  MISSING', m)
