"""Render the table of seeded changes (DESIGN.md section 9) from seeded/*/meta.json."""
import glob, json, os
ROOT = os.path.dirname(os.path.dirname(os.path.abspath(__file__)))
print('| change | property | what it does | needs to manifest | caught by (clause of the first violation) |')
print('|---|---|---|---|---|')
for d in sorted(glob.glob(os.path.join(ROOT, 'seeded', '*'))):
    m = json.load(open(os.path.join(d, 'meta.json')))
    c = m.get('confirmed_by_lead', {})
    res = []
    for k, v in c.get('checks', {}).items():
        first = v.get('first', '')
        clause = first.split('|', 1)[1].strip().split(':')[0] if '|' in first else ''
        res.append('%s quick: %s%s' % (k, 'caught' if v['caught'] else '**missed**', (' (' + clause + ')') if clause else ''))
    summ = m.get('summary', '').replace('|', '/')
    need = m.get('needs_to_manifest', '').replace('|', '/')
    print('| %s | %s | %s | %s | %s |' % (os.path.basename(d), m['property'], summ[:230], need[:200], '; '.join(res)))
