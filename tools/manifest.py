"""Generate /verif/MANIFEST.json from the table below (run with /venv/bin/python tools/manifest.py).

CLAIMED lists the properties whose checks are registered; every other property goes to
not_applicable with the reason given in PENDING.
"""
import json
import os

ROOT = os.path.dirname(os.path.dirname(os.path.abspath(__file__)))

T = {
 'C01': dict(
  text='Generated expression programs (<= 12 nodes over the 15 elementary functions, + - * /, integer and real powers), points, methods, n, order and step configurations; every result is compared with the exact n-th derivative from 60-digit Taylor-series (jet) arithmetic on the same tree, inside an envelope tol * U + 64 eps (|exact| + sens_n) whose unit U (truncation of the documented order at the generated steps plus rounding amplified by the rule weights and by the conditioning of the program) is computed from the exact Taylor coefficients and certified sup-bounds: best-window unit with a calibrated per-(method, n) table for library-chosen steps, worst-window unit with a fixed multiple for user-supplied steps. Analyticity on every sampled disc is certified by ball arithmetic before anything is asserted. Decides the property on the generated cases only; the number of cases where a sign error or a factor 2 would have been flagged is reported per (method, n).',
  note='Trusted: mpmath 60-digit arithmetic, the jet recurrences and the ball-arithmetic certificate in nverif/oracle; the frozen tolerance table nverif/constants.json (calibrated on 3 x 180 000 cases of the unchanged tree, >= 100x head-room); ill-conditioned programs and extreme dynamic ranges are separate weak classes (no-exception / shape / finiteness only). Known finding classes F9/F11/F18/F19/F21 are stepped over and counted.',
  tech='property-based testing (Hypothesis) against a high-precision Taylor-arithmetic oracle with certified domain'),
 'C02': dict(
  text='Four families of generated cases with full_output=True: the C01 stream (Derivative), Gradient/Jacobian/Hessdiag/Hessian on generated multivariate programs, and arrays of correctly rounded functions: (a) honesty of the reported error estimate against the exact error (fixed multiple K = 1e5 plus a rounding floor at the reported final step), (b) a pooled calibration tripwire of err/estimate for the library-chosen configurations of the real-step methods, (c) exact self-consistency of the info record (f_value == f(x), sign/finiteness of the estimate, final_step is one of the steps generated for its entry, one entry per result entry - verified against single-element calls -, index range).',
  note='Trusted: oracles as C01/C03/C04. K = 1e5 is deliberately large (the clause is "a near-zero estimate never accompanies a wrong value"); configurations that leave one estimate (and two or three estimates with n >= 8) are known finding F10 and are stepped over and counted, as are the multicomplex classes F9/F11/F18/F19.',
  tech='property-based testing (Hypothesis): differential against an exact oracle + record invariants + metamorphic array/element comparison'),
 'C03': dict(
  text='Generated maps R^n -> R^m (affine, quadratic and ridge programs g(a.x+b) with exact partial derivatives from jets), all output containers (0-d, length-1, vector, (m,k) matrix), all five methods, orders 2 and 4: shapes (m,n)/(m,n,k), entries within the envelope, the extrapolated order p + s*t of short geometric step sequences (documented orders restated by the check), affine maps exact to a rounding bound, Gradient shape and equality with the Jacobian row, directionaldiff against the exact directional derivative.',
  note='Trusted: nverif/oracle/multivar.py (chain/product rule on 60-digit jets), certificate of analyticity on the reached polydisc; calibrated constants in the module.',
  tech='property-based testing (Hypothesis) against an exact multivariate oracle'),
 'C04': dict(
  text='Generated scalar functions of n <= 6 variables (exp/sin ridge terms, quadratics, products, compositions) with exact Hessians: shape, bitwise symmetry, entries within the envelope for all six methods, the extrapolated order of short geometric step sequences, quadratics exact to a rounding bound, Hessdiag for orders 2/4/6 and its agreement with diag(Hessian) within the error estimates, length-1-array outputs and complex-valued f.',
  note='Trusted: multivariate oracle as C03; calibrated constants in the module. Multicomplex precision-loss cases (F9 class) are classified and stepped over.',
  tech='property-based testing (Hypothesis) against an exact multivariate oracle'),
 'C05': dict(
  text='Every argument passed to the user function is recorded (copied) for generated classes x methods x n x order x dimension x step configurations x points, and the recorded list is checked against the invariants the methods promise: one-sidedness, realness, symmetric pairing for central rules, exact real part for the imaginary-step rules, reach <= stencil width * largest generated step, number of perturbed coordinates. One case in four reaches its configuration through the method setter of a live object built (and possibly called) with another method.',
  note='Trusted: the library\'s own step generator is used to obtain the generated steps (configuration, verified separately by C10); ulp slack 32.',
  tech='property-based testing (Hypothesis): invariant over the recorded call history of the user callable'),
 'C06': dict(
  text='For the exhaustive grid methods x n 1..10 x order 1..10 x 7 step ratios plus random ratios: the library\'s own difference quotient is evaluated with 80-digit mpmath numbers on monomials and the float rule weights are applied exactly; checks exactness up to degree n+method_order-1, the surviving error powers (spacing 1/2/4), the method_order formula and the pairing with Richardson.',
  note='Trusted: mpmath; moment-matrix condition number computed independently; configurations with condition number above 1e12 are counted and their moment errors tracked per decade of the condition number, not asserted.',
  tech='exhaustive enumeration of the finite grid + property-based testing (Hypothesis) in exact/80-digit arithmetic'),
 'C07': dict(
  text='Generated step ratios (real and complex), spacing, order, number of terms, lengths and columns: extrapolation weights compared with exact rational (mpmath for complex) solutions of the annihilation system, model sequences L + sum a_j h^(order+spacing j) mapped to L in every slot within conditioning-scaled rounding, output counts, non-negative error estimates, column independence (bitwise).',
  note='Trusted: Fraction Gaussian elimination / 60-digit mpmath; tolerance 100 eps * sum|w| * max|seq|.',
  tech='property-based testing (Hypothesis) against an exact rational oracle'),
 'C08': dict(
  text='Metamorphic: D(x)[i] vs D(x\')[i] where x\' equals x at i only (bitwise: value, error estimate, final step), D(x)[i] vs D(x[i]) evaluated as a scalar (bitwise for real-step methods, within a fixed multiple of the two error estimates for complex-step methods), result shape == x shape for 0..3 axes, and a recording wrapper verifying that extra positional/keyword arguments reach f unchanged (by identity) on every call; one object called twice at the same x with different extra arguments must give, the second time, exactly what a fresh object gives.',
  note='Trusted: correct rounding of + - * / sqrt in numpy (test functions use only these). Single-estimate complex-step configurations whose scalar/array difference is explained by rounding amplification are known finding F10 (stepped over, counted).',
  tech='property-based testing (Hypothesis): metamorphic relations + recorded-call invariant'),
 'C09': dict(
  text='Generated histories (2..12 operations: construct, call, set n/order/method and restore, share a step generator, clear / pre-populate the rule cache, other classes in between) over a pool of configurations; after every call the whole record must be bit-identical to a fresh evaluation (new objects, emptied cache), for 1 history in 40 computed in a pristine interpreter process per call. Plus sibling cases (two objects differing only in the number of steps, called alternately, every later call compared with a pristine interpreter). Plus multi-thread scripts (2..16 threads, disjoint objects, barrier start, 1e-6 s switch interval, emptied cache) compared bitwise with the sequential model.',
  note='Trusted: bitwise comparability of the exactly-rounded test functions. Thread schedules are stressed, not controlled: the thread part is a weaker level of exploration than the history part.',
  tech='model-based history generation (Hypothesis) with a fresh-evaluation model; stress scheduling for threads'),
 'C10': dict(
  text='All constructor options of Min/Max/CStepGenerator x methods x n x order x x are generated and the produced sequences are compared (4 ulp) with an independently written closed-form model of the documented sequences and defaults; the finite grid methods x n 1..10 x order 1..10 is enumerated to show that default step counts always suffice for the rule and that Derivative does not fail for lack of steps.',
  note='Trusted: nverif/oracle/stepmodel.py written from the docstrings; where docstring and code disagree about the nominal step the model accepts the interval the property allows.',
  tech='property-based testing (Hypothesis) against a closed-form reference model + exhaustive finite grid'),
 'C11': dict(
  text='Each generated misuse (complex x / complex f with the complex-step methods for all five classes, non-vectorised f, multicomplex n > 2, too few steps, size mismatches in directionaldiff / fd_weights / fd_derivative, Residue order, unknown path) must raise ValueError, and its control twin with the misuse removed must not raise; a deterministic grid guarantees every (class, method, kind) cell.',
  note='Only the misuse kinds the property lists are asserted; broadcast-compatible stacked outputs are excluded (the library differentiates them component-wise).',
  tech='property-based testing (Hypothesis) + enumerated grid with control group'),
 'C12': dict(
  text='Every Bicomplex operator and elementary function, and random compositions, at generated bicomplex arguments near the real domain are compared in all four components with the idempotent-decomposition oracle e1 f(z1 - i z2) + e2 f(z1 + i z2) evaluated by mpmath at 50 digits; reduction to the complex function for z2 = 0; imag1/imag12 against exact f\', f\'\' from jets; array results bitwise equal to elementwise results.',
  note='Trusted: mpmath principal branches; conditioning-aware tolerance calibrated per function. tanh/coth overflow (F11) and huge-modulus overflow are known findings, stepped over and counted.',
  tech='property-based testing (Hypothesis) against a 50-digit idempotent-representation oracle'),
 'C13': dict(
  text='Geometric triples over 30 orders of magnitude are compared with the exact three-term Shanks transform of the float inputs in rational arithmetic (guards evaluated exactly, borderline cases skipped and counted), error-estimate honesty, and totality on arbitrary finite triples and arrays (finite results, no exception, inputs unmodified, elementwise, symmetric trimming). Thorough tier adds coverage-guided atheris executions of the same predicate.',
  note='Trusted: Fraction arithmetic; tolerance 16 T with the explicit conditioning T of the Shanks formula.',
  tech='property-based testing (Hypothesis) + coverage-guided fuzzing (atheris) against an exact rational oracle'),
 'C14': dict(
  text='Streams fed term by term: EpsAlg against the exact Wynn epsilon table in rational arithmetic with a running error bound (exactly representable geometric-transient sequences recover the limit from 2k+1 terms); Dea totality for lengths 1..200 and limexp 3..60, echo of the first two terms, agreement with dea3/EpsAlg on the third, and the 5 eps |result| floor of the error estimate. Thorough tier adds coverage-guided atheris executions into Dea\'s table-shift branches.',
  note='Trusted: Fraction arithmetic. Beyond the third term Dea is not compared with EpsAlg (QUADPACK selects the entry with the smallest error estimate).',
  tech='model-based stream generation (Hypothesis) + coverage-guided fuzzing (atheris) against an exact rational epsilon table'),
 'C15': dict(
  text='Generated node sets (2..14 nodes, five spacing families, three orderings, five x0 placements) compared entry by entry with Lagrange-basis derivative weights computed in exact rational arithmetic from the same floats; decides the property on the generated cases only.',
  note='Trusted: python Fraction arithmetic, the polynomial-expansion oracle in nverif/oracle/rational.py; tolerance 2e-11 relative to the largest exact weight of a row.',
  tech='property-based testing (Hypothesis) against an exact rational oracle'),
 'C16': dict(
  text='Generated grids (uniform / random strictly monotone, increasing and decreasing, lengths up to 60), n 1..6, m 1..4 and polynomials up to the maximal exact degree: fd_derivative compared at every grid point with the exact derivative in rational arithmetic, tolerance scaled by the exact stencil weights; boundary and interior reported separately.',
  note='Trusted: Fraction arithmetic and the documented stencil layout.',
  tech='property-based testing (Hypothesis) against an exact rational oracle'),
 'C17': dict(
  text='Function families with closed-form or jet-computed Taylor series at real and complex z0 (known distance to the nearest singularity), n up to 100, generated radius / step ratio / extrapolation options: coefficients within K*error_estimate + FFT floor when the status is clean, derivative() == taylor() * k!, status-flag semantics and the never-degenerate clause.',
  note='Trusted: mpmath series; K and kappa calibrated. Zero-estimate garbage coefficients (F7) and the slowly-varying-entire-function failure (F12) are known findings, stepped over and counted.',
  tech='property-based testing (Hypothesis) against closed-form / high-precision series'),
 'C18': dict(
  text='f = g * s(z - z0) for generated analytic g and the listed well-conditioned kernels, real and complex z0, above/below, radial/spiral, orders 1..8, step ratios, arrays mixing singular and regular points; Residue for poles of order 1..3: result against g(z0) from mpmath within K*error_estimate + floor, regular points returned bitwise unchanged.',
  note='Trusted: mpmath; the kernels\' own singularities are kept outside the generated step range by construction.',
  tech='property-based testing (Hypothesis) against a high-precision oracle'),
 'C19': dict(
  text='Generated maps R^n -> R^m with exact Jacobians, methods central/forward/complex, relative steps, extra args/kwds recorded, random boxes with x inside or on a face: shapes, complex method exact on affine maps, finite-difference accuracy otherwise, every evaluation point inside the box, forwarding, Gradient shape, and a second call of one object at the same x with other extra arguments compared bitwise with a fresh object.',
  note='Trusted: multivariate oracle; scipy\'s documented step semantics. Scalar (0-d) outputs return shape (n,) as an existing repository test requires.',
  tech='property-based testing (Hypothesis) against an exact oracle + recorded-call invariant'),
}

CLAIMED = ['C%02d' % i for i in range(1, 20)]
PENDING = 'check built but not yet registered in this revision (calibration / multi-seed verification in progress)'


def main():
    props = [json.loads(l) for l in open(os.path.join(ROOT, 'properties.jsonl'))]
    m = {
        'version': 1,
        'setup_cmd': './setup.sh',
        'hooks': {
            'guard': 'PBROD_NUMDIFFTOOLS_VERIF',
            'enable': 'no source hooks are needed: numdifftools is pure Python and is imported from /repo/src '
                      'through PYTHONPATH by ./check, every observation point is reachable from outside; the '
                      'checks export PBROD_NUMDIFFTOOLS_VERIF=1 for uniformity',
            'baseline_off_cmd': 'cd /repo && /venv/bin/python -m pytest -ra -q -p no:cacheprovider --timeout=900 '
                                '--continue-on-collection-errors',
            'source_commits': [], 'add_only': True},
        'engines': [{'name': 'nverif', 'path': 'nverif/', 'serves_properties': sorted(CLAIMED),
                     'kind_free_text': 'Hypothesis 6.168 property-based testing, 16 seeded shard processes, '
                                       'exact / high-precision oracles; atheris as secondary engine'}],
        'checks': [], 'not_applicable': [],
        'notes': 'See DESIGN.md. Repairs of genuine defects are separate "fix:" commits in /repo, listed in '
                 'known_findings.json (status fixed) with pinned regression replays.'}
    for p in props:
        pid = p['id']
        if pid in CLAIMED:
            t = T[pid]
            m['checks'].append({
                'property_id': pid, 'quick_cmd': './check %s quick' % pid,
                'thorough_cmd': './check %s thorough' % pid, 'evidence_file': 'evidence/%s.json' % pid,
                'replay_cmd_template': './check --replay {path}', 'engine': 'nverif',
                'level_claimed': {'category': 'exploration', 'text': t['text'],
                                  'design_ref': 'DESIGN.md section 4, %s' % pid},
                'level_note': t['note'], 'technique': t['tech']})
        else:
            m['not_applicable'].append({'property_id': pid, 'reason': PENDING})
    with open(os.path.join(ROOT, 'MANIFEST.json'), 'w') as fh:
        json.dump(m, fh, indent=1)
    print('claimed', len(m['checks']), 'pending', len(m['not_applicable']))


if __name__ == '__main__':
    main()
