"""Find a regression replay for a fix: run a property's check against /repo at the commit BEFORE the
fix (scratch worktree) and list the violations it raises there.

  python tools/pin_fixed.py <fix-commit> <PROP> [--tier quick] [--seed 0] [--copy-to pinned/C03/name.json --match clause=shape]
"""
import argparse, glob, json, os, shutil, subprocess, sys, tempfile

VERIF = os.path.dirname(os.path.dirname(os.path.abspath(__file__)))


def main():
    ap = argparse.ArgumentParser()
    ap.add_argument('commit')
    ap.add_argument('prop')
    ap.add_argument('--tier', default='quick')
    ap.add_argument('--seed', default='0')
    ap.add_argument('--copy-to')
    ap.add_argument('--match', action='append', default=[])
    a = ap.parse_args()
    wt = tempfile.mkdtemp(prefix='ndt-prefix-')
    os.rmdir(wt)
    try:
        r = subprocess.run(['git', '-C', '/repo', 'worktree', 'add', '-q', '--detach', wt, a.commit + '^'],
                           capture_output=True, text=True)
        assert r.returncode == 0, r.stderr
        env = dict(os.environ, NVERIF_REPO_SRC=os.path.join(wt, 'src'), VERIF_SEED=a.seed,
                   NVERIF_EVIDENCE_DIR=os.path.join(wt, 'evidence'),
                   NVERIF_REPLAY_DIR=os.path.join(wt, 'replays'))
        p = subprocess.run([os.path.join(VERIF, 'check'), a.prop, a.tier], env=env, cwd=VERIF,
                           capture_output=True, text=True)
        print('exit', p.returncode, p.stdout.strip().splitlines()[-1] if p.stdout.strip() else '')
        want = dict(m.split('=', 1) for m in a.match)
        picked = None
        for f in sorted(glob.glob(os.path.join(wt, 'replays', a.prop, '*.json'))):
            b = json.load(open(f))
            key = b.get('finding_key', {})
            ok = all(str(key.get(k)) == v or (isinstance(key.get(k), list) and v in map(str, key.get(k)))
                     for k, v in want.items())
            print('%s %s %s' % ('*' if ok else ' ', b['clause'], json.dumps(key)[:260]))
            print('      ', b['message'][:200])
            if ok and picked is None:
                picked = f
        if a.copy_to and picked:
            dest = os.path.join(VERIF, a.copy_to)
            os.makedirs(os.path.dirname(dest), exist_ok=True)
            shutil.copy(picked, dest)
            print('copied', picked, '->', a.copy_to)
            # the pinned case must pass on the current tree
            r = subprocess.run([os.path.join(VERIF, 'check'), '--replay', dest], capture_output=True, text=True, cwd=VERIF)
            print('on current tree:', [l for l in r.stdout.splitlines() if 'replay' in l.lower() or 'VIOLATION' in l][:1])
    finally:
        subprocess.run(['git', '-C', '/repo', 'worktree', 'remove', '--force', wt])
        shutil.rmtree(wt, ignore_errors=True)


if __name__ == '__main__':
    main()
