"""Validate MANIFEST.json and every evidence file against the schemas (run with python3-vt)."""
import glob, json, sys
import jsonschema
m = json.load(open('/verif/MANIFEST.json'))
jsonschema.validate(m, json.load(open('/root/.vp/MANIFEST.schema.json')))
es = json.load(open('/root/.vp/EVIDENCE.schema.json'))
bad = 0
for c in m['checks']:
    try:
        jsonschema.validate(json.load(open('/verif/' + c['evidence_file'])), es)
    except Exception as exc:
        bad += 1
        print('EVIDENCE INVALID', c['property_id'], str(exc)[:200])
ids = {json.loads(l)['id'] for l in open('/verif/properties.jsonl')}
claimed = {c['property_id'] for c in m['checks']}
na = {e['property_id'] for e in m.get('not_applicable', [])}
print('claimed', sorted(claimed)); print('not_applicable', sorted(na))
assert claimed | na == ids and not (claimed & na), 'every property must be claimed or listed'
print('ok' if not bad else 'BAD')
sys.exit(1 if bad else 0)
