#!/bin/bash
# usage: tools/seeds.sh <ID> [tier] [seeds...]   - run a check over several seeds, one summary line each
id="$1"; tier="${2:-quick}"; shift; shift
seeds="${*:-0 1 2 3 7 42 12345 2147483647}"
cd "$(dirname "$0")/.."
for s in $seeds; do
  out=$(VERIF_SEED=$s ./check "$id" "$tier" 2>&1); code=$?
  echo "seed=$s exit=$code $(echo "$out" | grep -E "^$id " | tail -1)"
  echo "$out" | grep -E "^(VIOLATION|HARNESS-ERROR|  )" | cut -c1-300 | head -6
done
