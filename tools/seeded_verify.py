"""Confirm a seeded change and run our checks against it, in a scratch worktree of /repo.

  python tools/seeded_verify.py /tmp/seed/out/C06_1 [--checks C06,C09] [--no-tests] [--keep]
Steps: (1) patch applies to /repo HEAD; (2) demo passes without / fails with the change;
(3) baseline tests still pass with the change; (4) each listed check (default: the property the
change targets) is run with NVERIF_REPO_SRC pointing at the patched worktree: exit 1 expected.
With --keep the change is copied to /verif/seeded/<name>/ with an updated meta.json.
"""
import argparse, json, os, shutil, subprocess, sys, tempfile, time

VERIF = os.path.dirname(os.path.dirname(os.path.abspath(__file__)))


def sh(cmd, **kw):
    return subprocess.run(cmd, shell=isinstance(cmd, str), capture_output=True, text=True, **kw)


def main():
    ap = argparse.ArgumentParser()
    ap.add_argument('dir')
    ap.add_argument('--checks')
    ap.add_argument('--no-tests', action='store_true')
    ap.add_argument('--keep', action='store_true')
    ap.add_argument('--tier', default='quick')
    ap.add_argument('--seed', default='0')
    a = ap.parse_args()
    d = os.path.abspath(a.dir)
    name = os.path.basename(d)
    meta = json.load(open(os.path.join(d, 'meta.json')))
    prop = meta['property']
    checks = a.checks.split(',') if a.checks else [prop]
    wt = tempfile.mkdtemp(prefix='ndt-seeded-')
    os.rmdir(wt)
    rec = dict(name=name, property=prop)
    try:
        r = sh(['git', '-C', '/repo', 'worktree', 'add', '-q', '--detach', wt, 'HEAD'])
        assert r.returncode == 0, r.stderr
        env = dict(os.environ, PYTHONPATH=os.path.join(wt, 'src'))
        r0 = sh(['/venv/bin/python', os.path.join(d, 'demo.py')], env=env, cwd=d)
        rec['demo_without_change'] = r0.returncode
        r = sh(['git', '-C', wt, 'apply', os.path.join(d, 'patch.diff')])
        rec['patch_applies'] = r.returncode == 0
        if r.returncode != 0:
            rec['apply_error'] = r.stderr[-300:]
            print(json.dumps(rec)); return 1
        r1 = sh(['/venv/bin/python', os.path.join(d, 'demo.py')], env=env, cwd=d)
        rec['demo_with_change'] = r1.returncode
        rec['demo_message'] = (r1.stderr or r1.stdout).strip().splitlines()[-1][:200] if (r1.stderr or r1.stdout).strip() else ''
        if not a.no_tests:
            xml = os.path.join(wt, 'junit.xml')
            sh('cd %s && /venv/bin/python -m pytest -ra -q -p no:cacheprovider --timeout=900 '
               '--continue-on-collection-errors --junitxml=%s > /dev/null 2>&1' % (wt, xml))
            r = sh(['/venv/bin/python', os.path.join(VERIF, 'tools', 'baseline_compare.py'), xml])
            rec['baseline_tests'] = r.stdout.strip().splitlines()[0] if r.stdout.strip() else r.stderr[-200:]
        rec['checks'] = {}
        for c in checks:
            t0 = time.time()
            env2 = dict(os.environ, NVERIF_REPO_SRC=os.path.join(wt, 'src'), VERIF_SEED=a.seed,
                        NVERIF_EVIDENCE_DIR=os.path.join(wt, 'evidence'),
                        NVERIF_REPLAY_DIR=os.path.join(wt, 'replays'))
            r = sh([os.path.join(VERIF, 'check'), c, a.tier], env=env2, cwd=VERIF)
            lines = [l.strip() for l in r.stdout.splitlines() if l.startswith('VIOLATION') or l.startswith('  ')]
            rec['checks'][c] = dict(exit=r.returncode, caught=r.returncode == 1,
                                    first=' | '.join(lines[:2])[:400], wall_s=round(time.time() - t0, 1))
        print(json.dumps(rec, indent=1))
        if a.keep:
            dest = os.path.join(VERIF, 'seeded', name)
            os.makedirs(dest, exist_ok=True)
            for fn in ('patch.diff', 'demo.py'):
                shutil.copy(os.path.join(d, fn), os.path.join(dest, fn))
            meta['confirmed_by_lead'] = rec
            with open(os.path.join(dest, 'meta.json'), 'w') as fh:
                json.dump(meta, fh, indent=1)
        return 0
    finally:
        sh(['git', '-C', '/repo', 'worktree', 'remove', '--force', wt])
        shutil.rmtree(wt, ignore_errors=True)


if __name__ == '__main__':
    sys.exit(main())
